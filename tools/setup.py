"""setup_cmd: build the world for the current /repo tree (private HOME + generated code). Offline."""
import os
import sys

sys.path.insert(0, os.path.dirname(os.path.dirname(os.path.abspath(__file__))))
from dst import core  # noqa

home = core.ensure_pycode()
print('[dst] world ready: %s' % home)
