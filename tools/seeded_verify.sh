#!/bin/bash
# usage: tools/seeded_verify.sh <worktree> <name>   e.g. tools/seeded_verify.sh /tmp/wt-C04 C04-a
# Confirms an independently written seeded change: demo fails with it and passes without it, pinned tests pass with it;
# then files it under /verif/seeded/<name>/ (patch.diff, demo.py, meta.json + verified.json).
wt=$1; name=$2
set -u
cd "$wt" || exit 2
run() { HOME=$wt/home PYTHONPATH=$wt timeout 900 /venv/bin/python "$@"; }
test -s out/patch.diff || git diff -- andes > out/patch.diff
test -s out/patch.diff || { echo "no patch"; exit 2; }
test -f out/demo.py || { echo "no demo"; exit 2; }
git diff --quiet -- andes && git apply out/patch.diff
run out/demo.py > out/demo_with.txt 2>&1; with=$?
git apply -R out/patch.diff
run out/demo.py > out/demo_without.txt 2>&1; without=$?
git apply out/patch.diff
run -m pytest -q -p no:cacheprovider --timeout=900 tests > out/pytest.txt 2>&1
summary=$(tail -1 out/pytest.txt)
failed=$(grep -c "^FAILED" out/pytest.txt)
other=$(grep "^FAILED" out/pytest.txt | grep -vc "test_pandapower")
echo "$name demo_with_change=exit$with demo_without=exit$without pytest: $summary (non-pandapower failures: $other)"
if [ "$with" = "1" ] && [ "$without" = "0" ] && [ "$other" = "0" ]; then
  d=/verif/seeded/$name; mkdir -p $d
  cp out/patch.diff out/demo.py $d/
  /venv/bin/python - "$wt" "$name" "$summary" <<'PY'
import json, sys, os
wt, name, summary = sys.argv[1:4]
meta = {}
try:
    meta = json.load(open(os.path.join(wt, 'out', 'meta.json')))
except Exception as e:
    meta = {'note': 'meta.json of the author unreadable: %r' % e}
meta['verified_by_harness_author'] = {
    'demo_with_change': 'exit 1 (FAIL): ' + open(os.path.join(wt, 'out', 'demo_with.txt')).read().strip().splitlines()[-1][:200],
    'demo_without_change': 'exit 0 (PASS): ' + open(os.path.join(wt, 'out', 'demo_without.txt')).read().strip().splitlines()[-1][:200],
    'pinned_tests_with_change': summary,
    'commands': ['HOME=<wt>/home PYTHONPATH=<wt> /venv/bin/python out/demo.py (with patch, then after git stash)',
                 'HOME=<wt>/home PYTHONPATH=<wt> /venv/bin/python -m pytest -q -p no:cacheprovider --timeout=900 tests'],
}
json.dump(meta, open('/verif/seeded/%s/meta.json' % name, 'w'), indent=1)
PY
  echo "KEPT $name"
else
  echo "REJECTED $name"
fi
