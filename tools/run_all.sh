#!/bin/bash
# Run every registered quick (or thorough) check in turn on the current tree; print a one-line verdict per property.
cd "$(dirname "$0")/.."
tier=${1:-quick}
mkdir -p .work/logs
for p in $(python3 -c "import json; print(' '.join(c['property_id'] for c in json.load(open('MANIFEST.json'))['checks']))"); do
  start=$(date +%s)
  ./check $p --tier $tier > .work/logs/$p.$tier.log 2>&1
  code=$?
  echo "$p exit=$code wall=$(( $(date +%s) - start ))s $(grep -c '^VIOLATION' .work/logs/$p.$tier.log) violation(s) $(grep -c '^KNOWN-FINDING' .work/logs/$p.$tier.log) known $(grep -c 'HARNESS-ERROR' .work/logs/$p.$tier.log) harness"
done
