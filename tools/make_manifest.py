#!/usr/bin/env python3
"""Regenerate MANIFEST.json from the table below (kept valid against /root/.vp/MANIFEST.schema.json)."""
import json
import os

HERE = os.path.dirname(os.path.dirname(os.path.abspath(__file__)))

NA = [
    ("C01", "pure function of network data and solver options; no schedule, clock, fault, crash point or I/O ordering "
            "to simulate; deciding it needs input generation plus an independent AC-balance oracle (DESIGN.md section 5)"),
    ("C03", "symbolic / finite-difference identity of the residual functions at a point; no history, fault or "
            "interleaving can change it (its pattern-constancy clause is monitored inside C16's runs)"),
    ("C18", "symbolic identity over all parameter values of the block definitions; simulating block responses would "
            "only sample parameter points (input generation in simulator clothing)"),
]

# id -> (engine, category, technique, level text, level note, design ref)
CHECKS = {}


def add(pid, engine, category, technique, text, note, ref):
    CHECKS[pid] = dict(engine=engine, category=category, technique=technique, text=text, note=note, ref=ref)


add("C06", "tds-sim", "exploration",
    "deterministic simulation: seeded event schedules x resume splits x forced step rejections; firing log vs executable schedule model",
    "Seeded search over event schedules (14 time classes incl. t0, tf, ulp neighbours, coincident, within eps, at/around resume "
    "boundaries), step-size knobs, resumed segments and solver-forced rejections on the real TDS loop of ~85 stock cases; every "
    "TimerParam callback is logged and compared with an independent schedule model (exactly once, exact time, enabled only, "
    "addressed device only, persistence, exact grid). Between resumed segments the simulator also acts as the user: events whose time has not come "
    "are put in or out of service (Model.alter on u) and must fire / stay silent accordingly; lines that the case brings out of service are "
    "switched in by events, and at the end of every successful run the power every Line injects into the network equations must be that of its "
    "data with its current status (line_effect). Evidence, not proof: samples schedules.",
    "Trusted: the recorder wrappers (instance attributes) do not perturb the run; event devices are read back from the loaded "
    "System as data. Stability of the disturbed case is not assumed.", "DESIGN.md section 4, C06")

add("C04", "tds-sim", "exploration",
    "deterministic simulation: per-iteration rule mirror from the simulator's own copies under seeded solver-forced step rejections, stale-factor faults and resume splits",
    "Every Newton iteration of every attempted step of seeded runs (stock cases x knobs x disturbances x resumed segments) is checked against the "
    "integration rule recomputed from the simulator's own x0/f0 copies and an independently rebuilt mass matrix; acceptance <=> |inc|<=tol, "
    "accepted state == evaluation point - increment, rejection is an exact no-op (forced at every attempt index of three short runs: exhaustive "
    "single-fault placement), continuity between attempts, step-size envelope, end-to-end residual, completion, and order of convergence by step "
    "halving. The mass matrix is rebuilt from the models' time-constant parameters at every attempt; seeded plans alter a time constant between "
    "resumed segments (Model.alter) or during the run (timed Alter on M), after which the rule must hold with the new value. Evidence, not proof.",
    "Trusted: model-level t_const parameters and limiter x_set lists are taken as data; the solver seam returns a bounded wrong increment to force "
    "the real rejection path. Completion is only demanded at the default tolerance on stock schedules.", "DESIGN.md section 4, C04")

add("C14", "restart-sim", "exploration",
    "deterministic simulation: interrupted run (resume / dill snapshot / crash-restart from snapshot / torn snapshot / reset) vs uninterrupted twin",
    "A reference twin runs each seeded plan uninterrupted; the subject is interrupted at seeded points after the first disturbance (on/off grid, "
    "at and around events, just after the first event) by resume, save_ss/load_ss (stream and file), continuing the original after save, "
    "crash at a seeded attempt with restart from the snapshot bytes only, torn/bit-flipped snapshot, and reset()+power flow. Trajectories must "
    "agree (bit-level when reproducible, else within 3x a step-halving estimate; interruptions a hair - 1e-5 .. 1e-6 s - before an event included), the event log must neither lose nor repeat events, the time "
    "axis must be gap- and duplicate-free, restored objects keep Tf/Teye/flags/switch index and view aliasing. Every stored grid point of a "
    "short run is enumerated as split point for three cases.",
    "Trusted: the twin run as reference; undetermined zero-time-constant states are excluded from comparisons; dill snapshots are costly here so "
    "the quick tier holds at most one per plan.", "DESIGN.md section 4, C14")

add("C15", "tds-sim", "exploration",
    "deterministic simulation: recorder ground truth of accepted steps vs memory / npz / lst / loader / csv / csv replay under seeded selection, thinning, off-loading, resume and injected write errors",
    "The simulator copies (t, x, y) of every accepted attempt; the in-memory series, the npz rows (across off-load chunks and resumed segments), "
    "the lst labels (against the owner of each slot), the TDSData loader, name/regex queries, the csv export and a csv replay in a fresh System "
    "and the in-memory plotter (re)loaded after every segment must reproduce exactly those numbers in exactly the reference selection and thinning; ENOSPC/EIO injected on the k-th npz write must "
    "propagate or fail the run. Seeded over stock cases, Output shapes, save_every, limit_store/max_store and segments.",
    "Trusted: StepTap copies as ground truth; slot ownership read from the variables' address arrays (C10 checks those); z (limiter flag) columns "
    "are only checked for count, not value.", "DESIGN.md section 4, C15")

add("C16", "solver-sim", "exploration",
    "deterministic simulation: seeded matrix-sequence histories on one solver instance vs dense reference in sacrificial workers; stale-factor fault and cross-option twins in real runs; fresh-interpreter repetition",
    "Per back-end (KLU, UMFPACK, SuperLU) seeded histories of same-pattern / new-pattern / new-size / singular / regular-again matrices, values changed in place on the matrix object "
    "of the previous call, and regular matrices that need pivoting (tiny diagonal) through "
    "solve() and linsolve(), with and without refresh requests, are judged by numpy.linalg (||Ax-b|| <= 1e-9||b||; singular => NaN/exception and "
    "recovery); a worker death by signal is an observation. In real runs an injected stale symbolic factor must leave the trajectory "
    "bit-identical and every solve of the run must satisfy A x = b for the matrix and right-hand side it was given; the same disturbed plan "
    "under different sparselib/linsolve/ipadd/PF-method must agree (PF 1e-9, trajectories 1e-6 or a step-halving bound when discrete "
    "switching differs, state matrices 1e-6 with a bit-identical-operating-point discriminator for break-point ties, eigenvalues 1e-6 where "
    "the Bauer-Fike bound says rounding cannot separate them); the Jacobian pattern must be constant; two fresh interpreters with different "
    "hash seeds must give identical bytes.",
    "Trusted: numpy.linalg as dense reference; numba JIT on/off is not exercised in the quick tier.", "DESIGN.md section 4, C16")

add("C17", "tds-sim", "fault_enumeration",
    "fault enumeration: fixed catalogue of constructed / injected failures (class x case x position) run completely, plus seeded combinations; flags, exit codes, dependants and stored state checked",
    "A fixed catalogue (overload, NaN at iteration k, iteration limit, no slack, zero impedance, solver NaN / persistent rejection / shrinkt=0 at "
    "attempt k, criterion trip, infeasible and feasible cases under the Newton-Krylov variant, corrupted PF hand-over, dependants after a failed PF, missing / unknown / truncated input per format, fail-repair-"
    "retry, and success followed by an infeasible re-run on the same System: loads altered x50, iteration limit, solver NaN) is executed completely on every run and extended by seeded combinations over the stock cases. Failure must give False, non-zero exit "
    "code, refusing dependants, no NaN rows or solution; each reported success is re-examined (residual at the reported solution, end time, "
    "stability criterion re-evaluated from the rotor-angle slots of the in-service machines themselves).",
    "Trusted: PF success is re-examined with the routine's own residual evaluation; for corrupt input an exception that would end the CLI with "
    "non-zero status counts as reported. Undetectable corruption (a still-valid file) is not demanded.", "DESIGN.md section 4, C17")

add("C05", "tds-sim", "exploration",
    "deterministic simulation: every stock case initialised and simulated flat under seeded knobs, resumed segments, simulated wall clocks (qrt) and corrupted power-flow hand-over",
    "Partial claim (simulation clauses over the stock catalogue). Every loadable stock case with states is initialised and run without any "
    "disturbance under seeded method/step/solver/tolerance, split into resumed segments, optionally under quasi-real-time stepping with a "
    "simulated steady/slow/jumpy/stalled/fast wall clock. test_ok must equal the simulator's own reading of the residuals, bus slots must carry "
    "the power-flow solution bit-exactly, stock data measured consistent must keep initialising, and with every limiter strictly inside the "
    "state must not move (<= 20x the init residual). A corrupted hand-over (voltage / angle perturbation, a NaN, a zero droop that makes one "
    "residual NaN while all others stay zero) must be reported (test_ok False, exit code, run() not True). "
    "A fifth of the plans take one generating unit completely out of service before set-up: a static generator that is off in the power "
    "flow must not be in service after the dynamic initialisation, and the case must still initialise.",
    "Not claimed: combinations of dynamic models that no stock case contains (pure input generation). Trusted: limiter flags zl/zu as the "
    "precondition; zero-time-constant states are excluded from the drift measure.", "DESIGN.md section 4, C05")

add("C09", "tds-sim", "exploration",
    "deterministic simulation: limiter monitors and call-by-call reference shadows of history components in runs with forced step rejections (real rewinds); seeded stand-alone component histories with repeats and rewinds; enumerated flag algebra",
    "In seeded runs that drive limiters (stock disturbances, bus faults near machines, load switching) with solver-forced rejections, every "
    "anti-windup state must stay inside its (possibly voltage-dependent) limits at every stored instant, held states must have a zero stored "
    "derivative, the value of every rate-limited differential equation must lie inside its enabled rate limits, every limiter's flags must be one-hot and agree with the comparison of its input away from the boundary, and each "
    "Delay/Average/Derivative instance of the system is shadowed call by call by a textbook reference fed the same (time, input) sequence, "
    "including real rewinds. Stand-alone, every discrete class is driven by seeded call sequences with repeated, irregular and rewound time "
    "stamps, equality, one-sided and sign-flipped limits; the flag algebra is enumerated over all orderings on a small grid.",
    "Trusted: clamp tolerance 50*tol*(1+|limit|); comparison consistency is not judged within 20*tol of a limit, right after an event, a "
    "rejected attempt or a chatter-accepted step (flags are one Newton iteration old). SortedLimiter latches by design and is only judged on its "
    "first evaluation; Sampling only for membership of its output among sampled inputs.", "DESIGN.md section 4, C09")

add("C12", "lifecycle-sim", "exploration",
    "deterministic simulation: enumerated and seeded on/off patterns, seeded line-switching schedules in real TDS runs (ConnTap seam after every event), bus-off histories; union-find reference",
    "All 2^L on/off patterns of three fixed topologies (Lines, a Jumper, parallel edges; three slack status combinations) are enumerated on one "
    "System; seeded topologies of 2-12 buses with seeded patterns (incl. all-out, disconnected slack) are built through System.add; stock "
    "dynamic cases get seeded Toggle schedules on lines and the partition recorded after every switching event is compared; seeded buses are "
    "switched off by Bus.alter/set before or after a power flow and the whole-system status diff must be exactly the attached devices. The "
    "reference is a union-find over in-service Line/Jumper edges with slack counting; isolated buses must be neutralised in the power flow.",
    "Trusted: the simulator's own list of bus-attached groups (the documented behaviour of the pinned tree); Fortescue transformers are not "
    "generated.", "DESIGN.md section 4, C12")

add("C10", "lifecycle-sim", "exploration",
    "deterministic simulation: stock cases rebuilt through System.add in seeded device order with seeded index re-typing, seeded lifecycle (setup / power flow / reset / dynamic init / steps / snapshot restore); ownership bijection and unique-sentinel aliasing checked after every operation",
    "Every stock case is taken apart into device rows and rebuilt through System.add in file, reversed, model-shuffled or fully interleaved "
    "order with per-group index re-typing (numeric, zero-based numeric, string, strings of digits such as '2' / '07') applied consistently to every reference; in 30 % of the plans a seeded subset of the "
    "models uses collated storage (ModelFlags.collate). After each lifecycle operation (both "
    "addressing phases, reset, snapshot save/load) the reference checker verifies that every internal variable of every device owns exactly "
    "one slot, all slots are owned, slot names name the owner, and - with a unique sentinel in every slot - reads through the model, Model.get, "
    "Group.get and every external link return the sentinel of the slot of the device named by the index field. The rebuilt system must solve "
    "to the stock file's bus voltages.",
    "Trusted: device rows read from the loaded stock file; naming convention for index parameters that do not declare their target; "
    "event/output devices are not rebuilt.", "DESIGN.md section 4, C10")

add("C11", "lifecycle-sim", "exploration",
    "deterministic simulation: seeded alter / Group.alter / alter(vin) / set / reset / power flow / dynamic init / run / export / reload histories against a reference (vin, k, v) parameter model with textbook coefficients",
    "Stock cases are rebuilt with seeded device bases different from the system base (physics kept), then a seeded history of public-API "
    "operations runs across the three lifecycle phases. After every operation each flagged power/voltage/current/impedance/admittance "
    "parameter must satisfy v == vin*k with k recomputed from Sn, Vn, bus Vn and system MVA; an altered PQ load must be what the converged "
    "power flow injects; an altered time constant must be in dae.Tf and TDS.Teye for every state it serves (shared time constants of the "
    "renewable models included) and the following steps must satisfy the rule mirror with the "
    "independently rebuilt mass matrix; every json/xlsx export written after an alteration - whatever was exported or cached before - and the "
    "reloaded export must carry the altered input-base values; reset() restores v = vin*k. The histories include a value set directly and then "
    "given again through the alteration call (both representations must end at it) and a device base (Sn) altered before the system is set up "
    "again (every flagged quantity must then sit on the new base).",
    "Trusted: the quantity kind of each parameter is read from the model declaration; parameters touched by Model.set are excluded until "
    "reset (documented semantics of set); limit parameters adjusted at initialisation are only judged when altered by the history.",
    "DESIGN.md section 4, C11")

add("C19", "lifecycle-sim", "exploration",
    "deterministic simulation: seeded add-sequence histories (index styles, duplicates, auto indices, interleaved order, dangling references) against a dict-based registry reference; lookups, back-references and helper devices checked after setup",
    "Small systems are built device by device through System.add across ten groups with explicit, duplicate, missing, numeric, float, string "
    "and numeric-looking-string indices in natural, reversed or shuffled order (referrers before targets where the index is known), optionally "
    "with one dangling required reference or a dangling *optional* one (IEEEG1.syn2). A registry reference records the index returned for every device. Indices must be unique per "
    "group and retrievable, explicit free indices kept, idx2model/idx2uid/get/find_idx (model and group, allow_all, allow_none) must return "
    "exactly the reference's answers, every BackRef list must be the exact inverse relation, auto-created BusFreq helpers must measure the "
    "right bus and exist once per bus, and a dangling reference - required, or optional but given - must make setup() fail.",
    "Trusted: the reference records returned indices (generated names are not predicted). Only the references listed in the module are made dangling.", "DESIGN.md section 4, C19")

add("C20", "lifecycle-sim", "exploration",
    "deterministic simulation: seeded construction / save / cold-restart histories over the real configuration space with seeded delivery channels, negative and truncated-file variants; every tds-sim run of the other checks also delivers its knobs through seeded channels",
    "Partial claim (delivery, precedence, coercion, save/restart, rejection as exercised by seeded plans; not an exhaustive field x value "
    "enumeration). Each plan draws fields from the ~400 real config fields of System, routines and models, gives them values of their own "
    "type and delivers them by option string, private rc file, System(config=...) or option+file with different values. The value in effect "
    "must be the highest-precedence one with the documented coercion, untouched fields keep defaults, save_config -> new System reproduces "
    "every field in value and type (also after changes on the config object), out-of-alternative values (integer- and string-valued, every "
    "string-valued field on both channels in a fixed part) and malformed options raise, and a truncated rc file never yields a silently different value.",
    "Trusted: field names and defaults are read from a default System of the current tree; the declared alternatives used by the rejection "
    "plans come from a committed catalogue measured on the pinned tree (dst/config_alt.json).",
    "DESIGN.md section 4, C20")

add("C13", "restart-sim", "exploration",
    "deterministic simulation: export -> cold restart from the export alone (json stream/file, xlsx file, chains of hops, MATPOWER dict of the static network after seeded off/duplicate/alter operations) with truncation and lost-write storage faults; field-by-field, power-flow and initialisation equality with the original",
    "Partial claim (round-trip clause as cold restart from durable state; parser-vs-source and cross-format equivalence are pure functions "
    "of file content and not claimed). Every stock case (xlsx, json, raw+dyr, matpower sources) is exported and a new System is built from "
    "the export alone, through one to three hops over json and xlsx; exported parameters must be equal field by field, the power-flow "
    "solution equal to 1e-12 and the dynamic-initialisation residual vectors equal. A truncated or lost export must fail loudly (exception, "
    "None, non-zero CLI status) or load to an equal system, never to a different one. Nearly half of the fault-free plans export a mid-life "
    "system: parameters altered through the public calls first (alter, set followed by alter to the same value, status cleared and confirmed), "
    "with a by-the-book reference of the input-base data. MATPOWER export clause: the static network of a stock case "
    "(seeded bus-index typing and device order; seeded loads / shunts / lines / generators out of service, a second load or shunt on a bus, "
    "altered set points) is exported with system2mpc and a new System built by mpc2system from the dict alone must have the same power flow "
    "at every bus (1e-8); networks the format cannot hold (other power-flow devices, asymmetric branch shunts, loads outside their voltage "
    "range) count as precondition unmet.",
    "Trusted: equality is judged on exported input-base parameters; bit flips are not injected because neither format carries a checksum "
    "over names and numbers.", "DESIGN.md section 4, C13")

add("C08", "lifecycle-sim", "exploration",
    "deterministic simulation: seeded eig / alter / sweep / flat-TDS / snapshot / reset histories; every eigenvalue result compared with a freshly built twin; output invariants, dense state-matrix recomputation and pencil reference on every call",
    "Partial claim: the history clause (state matrix of the current operating point after any history, including parameter sweeps). After "
    "seeded histories of EIG.run, Model.alter of time constants / damping (also to and from zero for exciter transducer lags, so that a state "
    "changes class between two analyses), EIG.sweep over them (one device or, in the documented multi-device form, two devices with their own value lists; also ending at zero), flat simulated segments, snapshot save/load and reset, every reported spectrum must equal (as a multiset, 2e-4) that of a fresh System given the same data before its power flow. "
    "Monitored on every call because it is free: counts partition the eigenvalues, participation factors are non-negative with unit sums per "
    "mode, EIG.As equals numpy's dense T^-1(fx - fy gy^-1 gx) from freshly updated Jacobians and an independently rebuilt mass matrix, and the "
    "spectrum equals scipy's finite generalised eigenvalues of the pencil (also with zero time constants).",
    "Trusted: only parameters that do not move the equilibrium and do not feed initialisation-time constants are altered/swept; cases with a "
    "singular algebraic block (undetermined zero-time-constant states) and non-equilibrium starts count as precondition unmet.",
    "DESIGN.md section 4, C08")

add("C07", "tds-sim", "exploration",
    "deterministic simulation: seeded single-machine systems with seeded line-switching schedules vs an independently integrated swing equation; seeded perturbations of stock cases vs the matrix-exponential response of a densely assembled linearisation; both at two step sizes",
    "A classical machine against an infinite bus through 2-3 parallel lines is built from seeded inertia, damping, reactances, loading, voltage "
    "and base frequency with 1-4 seeded events (lines opened / closed on and off the grid, at ulp neighbours, in close pairs; the inertia constant "
    "changed during the run by a timed Alter device, which the reference follows); the real TDS (both methods) at h and "
    "h/2 is compared with the swing equation integrated by SciPy DOP853 between switching instants from the power-flow-derived E'. Stock "
    "cases (limiters inside, no zero time constants) are perturbed by eps*d, made consistent by a 1e-6 s segment and compared (i) with the "
    "integration rule itself applied to the densely assembled linearisation on the time stamps actually produced (agreement to second-order "
    "terms) and (ii) with x* + expm(A t) d, from which the run may differ by exactly that rule's discretisation error; the requested fixed "
    "step must be the step taken and the error must not grow on halving. The SMIB error must shrink with the step within a Richardson bound.",
    "Trusted: SciPy's integrator and expm as references; phasor algebra for E'; nonlinearity floor 2*response^2 in the small-signal benchmark; "
    "backward Euler is only required not to get worse on halving at these step sizes (its error is dominated by numerical damping); the Richardson "
    "bound is the sharp part.", "DESIGN.md section 4, C07")

add("C02", "codegen-store", "exploration",
    "deterministic simulation: the on-disk generated-code store under seeded faults (model edits, stale md5, torn / deleted files, generation crash after k pool tasks in seeded order, restarts in fresh interpreters); loaded code vs independent sympy evaluation of the currently declared strings",
    "Partial claim: the lifecycle clause (regeneration from an unchanged model is functionally - here byte - identical; code that no longer "
    "matches the model is never silently used). Each scenario works on a private copy of the store (own HOME) and drives it through fresh "
    "interpreters: equation edits and their reversal, overwritten md5, files truncated at a seeded byte, deleted __init__/model files, a "
    "generation that dies after k tasks of an in-process pool with seeded completion order, repeated regenerations, and an equation edited on the "
    "live System followed by an incremental regeneration on that same instance (then a fresh session on the stock model). After every start the "
    "loaded residual functions of four probe models (1e-9) and of every model in use of a seeded stock case (residuals, variable and "
    "constant services, explicit initialisation assignments; 1e-6; all 45 evaluation cases after a full regeneration) are executed through "
    "the model's own update methods on seeded values and compared with a sympy evaluation by symbol name of the currently declared strings "
    "(dst/symcheck.py); md5 of loaded code must match the model; regenerated files must be byte-identical to a clean generation (the "
    "__version__ line of the package file, which records the git state of the checkout, excepted).",
    "Not claimed: the for-all-arguments clause (seeded points only) and models that no evaluation case contains. Tampered code with a valid "
    "md5 is outside the gate by design.", "DESIGN.md section 4, C02")

ENGINES = [
    {"name": "tds-sim", "path": "dst/tdssim.py", "kind_free_text": "real TDS loop under StepTap/SolverTap/TimerTap/StoreTap/ConnTap "
     "seams with seeded plans (events, segments, restarts, solver/disk/clock faults, crash points)", "serves_properties": []},
    {"name": "solver-sim", "path": "dst/props/c16.py", "kind_free_text": "matrix-sequence histories on one Solver instance per back-end in "
     "sacrificial worker processes, dense numpy reference; cross-option twins and stale-factor faults on tds-sim", "serves_properties": []},
    {"name": "lifecycle-sim", "path": "dst/props", "kind_free_text": "seeded API histories on one real System (add / setup / alter / set / "
     "reset / power flow / init / export / reload / snapshot) with reference models checked after every operation", "serves_properties": []},
    {"name": "codegen-store", "path": "dst/props/c02.py", "kind_free_text": "private copies of the generated-code store driven through fresh "
     "interpreters (dst/c02_child.py) with storage faults and an in-process pool with seeded completion order and crash point", "serves_properties": []},
    {"name": "restart-sim", "path": "dst/props/c14.py", "kind_free_text": "tds-sim plus interruption machinery: resume, dill snapshots in streams/"
     "files, crash injection with restart from durable bytes only, torn snapshots, reference twin", "serves_properties": []},
]


def main():
    done = sorted(CHECKS)
    for e in ENGINES:
        e["serves_properties"] = [p for p in done if CHECKS[p]["engine"] == e["name"]]
    allp = ["C%02d" % i for i in range(1, 21)]
    na = [{"property_id": p, "reason": r} for p, r in NA]
    na_ids = {p for p, _ in NA}
    for p in allp:
        if p not in CHECKS and p not in na_ids:
            na.append({"property_id": p, "reason": "not yet claimed: check under construction (designed in DESIGN.md section 4); "
                       "listed here until its check is built and soaked on the unchanged tree"})
    man = {
        "version": 1,
        "setup_cmd": "cd /verif && /venv/bin/python tools/setup.py",
        "hooks": {
            "guard": "ANDES_VERIF",
            "enable": "no source hooks are needed: every seam is an instance/module attribute installed by /verif/dst at run time",
            "baseline_off_cmd": "cd /repo && /venv/bin/python -m pytest -ra -q -p no:cacheprovider --timeout=900 --continue-on-collection-errors",
            "source_commits": [],
            "add_only": True,
        },
        "engines": [e for e in ENGINES if e["serves_properties"]],
        "checks": [
            {"property_id": p,
             "quick_cmd": "./check %s --tier quick" % p,
             "thorough_cmd": "./check %s --tier thorough" % p,
             "evidence_file": "/verif/evidence/%s.json" % p,
             "replay_cmd_template": "./check %s --replay {path}" % p,
             "engine": c["engine"],
             "level_claimed": {"category": c["category"], "text": c["text"], "design_ref": c["ref"]},
             "level_note": c["note"],
             "technique": c["technique"]}
            for p, c in sorted(CHECKS.items())],
        "notes": "Deterministic simulation with fault injection (andes-dst). One integer (VERIF_SEED) decides every plan; "
                 "violations are minimised and written as replay JSON under /verif/replays. known_findings.json lists "
                 "recorded findings (known) and repaired defects (fixed).",
        "not_applicable": na,
    }
    with open(os.path.join(HERE, "MANIFEST.json"), "w") as f:
        json.dump(man, f, indent=1)
    print("MANIFEST.json written with %d checks, %d not_applicable" % (len(man["checks"]), len(na)))


if __name__ == "__main__":
    main()
