#!/usr/bin/env python3
"""
Determinism self-test: every check is run twice on the same VERIF_SEED in separate process trees with a different
PYTHONHASHSEED and a different worker count; the per-plan digests (history digests computed by each property module)
must be identical plan by plan.  Evidence and replays go to .work/determinism, never to /verif/evidence.

usage: tools/determinism.py [--props C04,C06] [--seeds 11,12] [--count N] [--tier quick]
Writes evidence/determinism.json (summary only) when run without --props.
"""
import argparse
import json
import os
import subprocess
import sys
import time

VERIF = os.path.dirname(os.path.dirname(os.path.abspath(__file__)))


def run(prop, seed, hashseed, workers, count, tier, tag):
    d = os.path.join(VERIF, '.work', 'determinism')
    os.makedirs(d, exist_ok=True)
    out = os.path.join(d, '%s-%s-%s.json' % (prop, seed, tag))
    env = dict(os.environ, ANDES_DST_HASHSEED=str(hashseed), ANDES_DST_DIGESTS=out, VERIF_SEED=str(seed),
               ANDES_DST_EVIDENCE_DIR=os.path.join(d, 'evidence'), ANDES_DST_REPLAY_DIR=os.path.join(d, 'replays'))
    env.pop('ANDES_DST_CHILD', None)
    cmd = [os.path.join(VERIF, 'check'), prop, '--tier', tier, '--workers', str(workers), '--no-min', '--no-verify', '--budget', '3000']
    if count:
        cmd += ['--count', str(count)]
    r = subprocess.run(cmd, env=env, cwd=VERIF, stdout=subprocess.PIPE, stderr=subprocess.STDOUT)
    try:
        return json.load(open(out)), r.returncode
    except Exception:
        return None, r.returncode


def main():
    ap = argparse.ArgumentParser()
    ap.add_argument('--props', default=None)
    ap.add_argument('--seeds', default='11,12')
    ap.add_argument('--count', type=int, default=None)
    ap.add_argument('--tier', default='quick')
    a = ap.parse_args()
    man = json.load(open(os.path.join(VERIF, 'MANIFEST.json')))
    props = a.props.split(',') if a.props else [c['property_id'] for c in man['checks']]
    summary = {'runs': [], 'mismatches': 0, 'pairs': 0}
    for prop in props:
        for seed in a.seeds.split(','):
            t0 = time.time()
            A, ca = run(prop, seed, 0, 16, a.count, a.tier, 'a')
            B, cb = run(prop, seed, 4242, 7, a.count, a.tier, 'b')
            if A is None or B is None:
                print('%s seed=%s: no digest file (exit %s / %s)' % (prop, seed, ca, cb))
                summary['runs'].append({'property': prop, 'seed': seed, 'error': 'no digests', 'exit': [ca, cb]})
                continue
            both = [(x, y) for x, y in zip(A, B) if x['status'] == 'ok' and y['status'] == 'ok']
            bad = [(x['i'], x['digest'], y['digest']) for x, y in both if x['digest'] != y['digest'] or x['classes'] != y['classes']]
            summary['pairs'] += len(both)
            summary['mismatches'] += len(bad)
            summary['runs'].append({'property': prop, 'seed': seed, 'plans_compared': len(both), 'mismatches': len(bad),
                                    'examples': bad[:3], 'exit': [ca, cb], 'wall_s': round(time.time() - t0, 1),
                                    'configs': [{'PYTHONHASHSEED': 0, 'workers': 16}, {'PYTHONHASHSEED': 4242, 'workers': 7}]})
            print('%s seed=%s: %d plans compared, %d mismatch(es), exit %s/%s, %.0fs' % (prop, seed, len(both), len(bad), ca, cb, time.time() - t0))
            sys.stdout.flush()
    if not a.props:
        with open(os.path.join(VERIF, 'evidence', 'determinism.json'), 'w') as f:
            json.dump(summary, f, indent=1)
    return 1 if summary['mismatches'] else 0


if __name__ == '__main__':
    sys.exit(main())
