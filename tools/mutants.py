#!/venv/bin/python
"""
Sensitivity runner: apply each patch in /verif/mutants (or /verif/seeded/*/patch.diff) to a scratch copy of
/repo/andes under /var/tmp, run the named property's check against that copy, record killed/survived,
delete the copy.

usage: tools/mutants.py [--only NAME_SUBSTR] [--count N] [--jobs J] [--seeded]
A mutant file starts with a header line:  # property: C04 [C17 ...]
"""
import argparse
import json
import os
import re
import shutil
import subprocess
import sys
import time
from concurrent.futures import ThreadPoolExecutor

VERIF = os.path.dirname(os.path.dirname(os.path.abspath(__file__)))


def props_of(path):
    if path.endswith('patch.diff'):
        meta = os.path.join(os.path.dirname(path), 'meta.json')
        if os.path.isfile(meta):
            m = json.load(open(meta))
            p = m.get('property') or m.get('properties')
            return p if isinstance(p, list) else [p]
    with open(path) as f:
        for line in f:
            m = re.match(r'#\s*property:\s*(.*)', line)
            if m:
                return m.group(1).split()
    return []


def run_one(path, count, workers, tier):
    name = os.path.basename(os.path.dirname(path)) if path.endswith('patch.diff') else os.path.basename(path)[:-5]
    scratch = '/var/tmp/andes-mut-%s-%d' % (re.sub(r'\W', '_', name), os.getpid())
    out = {'mutant': name, 'results': {}}
    try:
        if os.path.isdir(scratch):
            shutil.rmtree(scratch)
        os.makedirs(scratch)
        subprocess.run(['cp', '-r', '/repo/andes', scratch + '/andes'], check=True)
        r = subprocess.run(['patch', '-p1', '-d', scratch, '-i', path, '--no-backup-if-mismatch', '-s'],
                           stdout=subprocess.PIPE, stderr=subprocess.STDOUT)
        if r.returncode != 0:
            out['error'] = 'patch failed: ' + r.stdout.decode()[-300:]
            return out
        for prop in props_of(path):
            env = dict(os.environ, ANDES_DST_REPO=scratch, VERIF_WORKERS=str(workers),
                       ANDES_DST_EVIDENCE_DIR=os.path.join(scratch, 'evidence'), ANDES_DST_REPLAY_DIR=os.path.join(scratch, 'replays'))
            env.pop('ANDES_DST_CHILD', None)
            t0 = time.time()
            cmd = [os.path.join(VERIF, 'check'), prop, '--tier', tier, '--no-min', '--no-verify']
            if count:
                cmd += ['--count', str(count)]
            r = subprocess.run(cmd, env=env, stdout=subprocess.PIPE, stderr=subprocess.STDOUT, cwd=VERIF, timeout=3600)
            txt = r.stdout.decode(errors='replace')
            classes = re.findall(r'class=(\{.*\})', txt)
            out['results'][prop] = {'exit': r.returncode, 'killed': r.returncode == 1 and 'VIOLATION property=%s' % prop in txt, 'classes': classes[:4],
                                    'wall': round(time.time() - t0, 1),
                                    'tail': txt[-600:] if (r.returncode not in (0, 1) or (r.returncode == 1 and 'VIOLATION property=' not in txt)) else ''}
    finally:
        shutil.rmtree(scratch, ignore_errors=True)
        # generated code of the mutant tree
    return out


def main():
    ap = argparse.ArgumentParser()
    ap.add_argument('--only', default=None)
    ap.add_argument('--count', type=int, default=None)
    ap.add_argument('--jobs', type=int, default=2)
    ap.add_argument('--workers', type=int, default=8)
    ap.add_argument('--tier', default='quick')
    ap.add_argument('--seeded', action='store_true')
    a = ap.parse_args()
    paths = []
    if a.seeded:
        base = os.path.join(VERIF, 'seeded')
        paths = sorted(os.path.join(base, d, 'patch.diff') for d in os.listdir(base)
                       if os.path.isfile(os.path.join(base, d, 'patch.diff')))
    else:
        base = os.path.join(VERIF, 'mutants')
        paths = sorted(os.path.join(base, f) for f in os.listdir(base) if f.endswith('.diff'))
    if a.only:
        paths = [p for p in paths if any(o in p for o in a.only.split(','))]
    with ThreadPoolExecutor(a.jobs) as ex:
        res = list(ex.map(lambda p: run_one(p, a.count, a.workers, a.tier), paths))
    for r in res:
        for prop, x in r['results'].items():
            print('%-40s %s %-9s exit=%d %5.1fs %s' % (r['mutant'], prop, 'KILLED' if x['killed'] else 'survived',
                                                      x['exit'], x['wall'], '; '.join(x['classes'])[:160]))
            if x['tail']:
                print('    ' + x['tail'].replace('\n', '\n    '))
        if r.get('error'):
            print('%-40s ERROR %s' % (r['mutant'], r['error']))
    dest = os.path.join(VERIF, 'evidence', 'sensitivity-seeded.json' if a.seeded else 'sensitivity.json')
    old = {}
    if os.path.isfile(dest):
        old = {r['mutant']: r for r in json.load(open(dest)).get('mutants', [])}
    for r in res:
        old[r['mutant']] = r
    json.dump({'mutants': sorted(old.values(), key=lambda r: r['mutant'])}, open(dest, 'w'), indent=1)


if __name__ == '__main__':
    main()
