#!/bin/bash
# False-alarm sweep: run every registered check of a tier under several VERIF_SEED values on the current tree.
# Evidence and replays of these runs go to .work/sweep (git-ignored), never to /verif/evidence.
# usage: tools/seed_sweep.sh "<seeds>" [tier] [props]
cd "$(dirname "$0")/.."
seeds=${1:-"1 2 3"}
tier=${2:-quick}
props=${3:-$(python3 -c "import json; print(' '.join(c['property_id'] for c in json.load(open('MANIFEST.json'))['checks']))")}
mkdir -p .work/sweep/evidence .work/sweep/replays .work/sweep/logs
export ANDES_DST_EVIDENCE_DIR=$PWD/.work/sweep/evidence ANDES_DST_REPLAY_DIR=$PWD/.work/sweep/replays
for s in $seeds; do
  for p in $props; do
    start=$(date +%s)
    VERIF_SEED=$s ./check $p --tier $tier > .work/sweep/logs/$p.$tier.$s.log 2>&1
    code=$?
    echo "seed=$s $p exit=$code wall=$(( $(date +%s) - start ))s $(grep -c '^VIOLATION' .work/sweep/logs/$p.$tier.$s.log) violation(s) $(grep -c '^KNOWN-FINDING' .work/sweep/logs/$p.$tier.$s.log) known $(grep -c 'HARNESS-ERROR' .work/sweep/logs/$p.$tier.$s.log) harness"
  done
done
