"""
andes-dst core: seeded streams, world preparation (private HOME + generated code per tree hash),
crash-attributing worker pool, batch driver, minimisation, replay, known findings, evidence.

Nothing in here draws from a PRNG or reads a clock on a logging path.  All choices made for one run
derive from ``seed_i = H(VERIF_SEED, property, i)``.
"""

import fcntl
import hashlib
import importlib
import json
import multiprocessing as mp
import multiprocessing.connection as mpc
import os
import random
import shutil
import signal
import subprocess
import sys
import time
import traceback

VERIF = os.path.dirname(os.path.dirname(os.path.abspath(__file__)))
REPO = os.environ.get('ANDES_DST_REPO', '/repo')
WORK = os.path.join(VERIF, '.work')
PY = '/venv/bin/python'

TIERS = ('quick', 'thorough')


# --------------------------------------------------------------------------------------------
# hashing / PRNG streams
# --------------------------------------------------------------------------------------------

def H(*parts):
    """Stable 63-bit hash of the parts (independent of PYTHONHASHSEED)."""
    h = hashlib.sha256()
    for p in parts:
        h.update(repr(p).encode())
        h.update(b'\x00')
    return int.from_bytes(h.digest()[:8], 'big') >> 1


def stream(seed, label):
    """Independent PRNG sub-stream: adding a new label never shifts the others."""
    return random.Random(H(seed, label))


def fhex(x):
    return float(x).hex()


class Digest:
    """Canonical run digest over the recorded history (floats as bytes, strings utf-8)."""

    def __init__(self):
        self.h = hashlib.sha256()

    def add(self, *items):
        import numpy as np
        for it in items:
            if isinstance(it, np.ndarray):
                self.h.update(np.ascontiguousarray(it, dtype=float).tobytes())
            elif isinstance(it, float):
                self.h.update(float(it).hex().encode())
            else:
                self.h.update(repr(it).encode())
            self.h.update(b'|')

    def hex(self):
        return self.h.hexdigest()[:24]


# --------------------------------------------------------------------------------------------
# world: private HOME with generated code for the *current* tree
# --------------------------------------------------------------------------------------------

def tree_hash(repo=None):
    """Content hash of every source file of the andes package (cases excluded)."""
    repo = repo or REPO
    root = os.path.join(repo, 'andes')
    h = hashlib.sha256()
    for dp, dn, fn in os.walk(root):
        dn[:] = sorted(d for d in dn if d not in ('cases', '__pycache__', 'pycode'))
        for f in sorted(fn):
            if f.endswith(('.py', '.yaml', '.yml', '.json', '.rc', '.txt', '.cfg')):
                p = os.path.join(dp, f)
                h.update(os.path.relpath(p, root).encode())
                with open(p, 'rb') as fh:
                    h.update(fh.read())
    return h.hexdigest()[:16]


def ensure_pycode(repo=None, verbose=True):
    """
    Make sure generated code for the current tree exists in a private HOME and return that HOME.

    ANDES' own md5 gate does not cover edits to the code generator, so freshness is decided by the
    tree hash: a changed tree always means full regeneration.
    """
    repo = repo or REPO
    th = tree_hash(repo)
    os.makedirs(WORK, exist_ok=True)
    home = os.path.join(WORK, 'home-' + th)
    marker = os.path.join(home, '.andes', 'pycode', '__init__.py')
    done = os.path.join(home, '.done')
    lock = open(os.path.join(WORK, '.lock'), 'w')
    fcntl.flock(lock, fcntl.LOCK_EX)
    try:
        if not (os.path.isfile(marker) and os.path.isfile(done)):
            if os.path.isdir(home):
                shutil.rmtree(home)
            os.makedirs(home)
            env = child_env(home, repo)
            t0 = time.time()
            cmd = [PY, '-c', 'import andes; andes.main.prepare(quick=True)']
            r = subprocess.run(cmd, env=env, stdout=subprocess.PIPE, stderr=subprocess.STDOUT,
                               cwd=home, timeout=900)
            if r.returncode != 0 or not os.path.isfile(marker):
                sys.stdout.write(r.stdout.decode(errors='replace')[-4000:])
                raise HarnessError('code generation failed for tree %s' % th)
            with open(done, 'w') as f:
                f.write(th)
            if verbose:
                print('[dst] generated pycode for tree %s in %.1fs' % (th, time.time() - t0))
        # mark this home as in use, and drop generated code of other trees that no check has used for three hours
        # (each is < 1 MB; a count-based limit removed homes under checks that were still running on another tree)
        os.utime(done, None)
        now = time.time()
        for d in os.listdir(WORK):
            if d.startswith('home-') and d != 'home-' + th:
                mark = os.path.join(WORK, d, '.done')
                try:
                    if now - os.path.getmtime(mark if os.path.isfile(mark) else os.path.join(WORK, d)) > 3 * 3600:
                        shutil.rmtree(os.path.join(WORK, d), ignore_errors=True)
                except OSError:
                    pass
    finally:
        fcntl.flock(lock, fcntl.LOCK_UN)
        lock.close()
    return home


def child_env(home, repo=None):
    repo = repo or REPO
    env = dict(os.environ)
    env.update({
        'HOME': home,
        'PYTHONHASHSEED': env.get('ANDES_DST_HASHSEED', '0'),
        'OMP_NUM_THREADS': '1', 'OPENBLAS_NUM_THREADS': '1', 'MKL_NUM_THREADS': '1',
        'NUMEXPR_NUM_THREADS': '1', 'VECLIB_MAXIMUM_THREADS': '1',
        'PYTHONDONTWRITEBYTECODE': '1',
        'MPLBACKEND': 'Agg',
        'ANDES_DST_CHILD': '1',
        'ANDES_DST_REPO': repo,
    })
    pp = [VERIF]
    if repo != '/repo':
        pp.insert(0, repo)
    if env.get('PYTHONPATH'):
        pp.append(env['PYTHONPATH'])
    env['PYTHONPATH'] = os.pathsep.join(pp)
    return env


def reexec_in_world():
    """Re-exec the current command inside the prepared world (private HOME, pinned hash seed, 1 BLAS thread)."""
    if os.environ.get('ANDES_DST_CHILD') == '1':
        return
    home = ensure_pycode()
    env = child_env(home)
    # every interpreter that imports andes creates a log directory with tempfile.mkdtemp: keep them out of /tmp and sweep old ones
    tmp = os.path.join(VERIF, '.work', 'tmp')
    os.makedirs(tmp, exist_ok=True)
    now = time.time()
    for n in os.listdir(tmp):
        q = os.path.join(tmp, n)
        try:
            if now - os.path.getmtime(q) > 1800:
                shutil.rmtree(q, ignore_errors=True) if os.path.isdir(q) else os.remove(q)
        except OSError:
            pass
    env['TMPDIR'] = tmp
    os.execve(PY, [PY] + sys.argv, env)


# --------------------------------------------------------------------------------------------
# exceptions
# --------------------------------------------------------------------------------------------

class HarnessError(Exception):
    pass


class Hang(BaseException):
    pass


def _alarm(signum, frame):
    raise Hang('per-run watchdog expired')


# --------------------------------------------------------------------------------------------
# worker pool with crash attribution
# --------------------------------------------------------------------------------------------

def _quiet_process():
    """Silence stdout/stderr of the worker at fd level (tqdm.write, C libraries) and logging."""
    import logging
    devnull = os.open(os.devnull, os.O_WRONLY)
    if not os.environ.get('ANDES_DST_DEBUG'):
        os.dup2(devnull, 1)
        os.dup2(devnull, 2)
        logging.disable(logging.CRITICAL)


def run_one(prop, plan, timeout):
    """Execute one plan in this process. Returns a JSON-able result dict (never raises)."""
    mod = importlib.import_module('dst.props.' + prop.lower())
    t0 = time.time()
    res = None
    old = signal.signal(signal.SIGALRM, _alarm)
    signal.alarm(int(timeout))
    try:
        res = mod.execute(plan)
        res.setdefault('status', 'ok')
    except Hang:
        res = {'status': 'hang', 'violations': [
            {'oracle': 'liveness', 'sig': {'oracle': 'liveness', 'what': 'hang'},
             'detail': 'run did not finish within %ds watchdog' % timeout}], 'plan': plan}
    except HarnessError as e:
        res = {'status': 'harness_error', 'trace': 'HarnessError: %s' % e, 'plan': plan}
    except BaseException:
        res = {'status': 'harness_error', 'trace': traceback.format_exc()[-3000:], 'plan': plan}
    finally:
        signal.alarm(0)
        signal.signal(signal.SIGALRM, old)
    res.setdefault('violations', [])
    res.setdefault('plan', plan)
    res['wall'] = time.time() - t0
    return res


def _worker_main(conn, prop, timeout):
    import faulthandler
    _quiet_process()
    try:
        import numpy  # noqa  pre-import outside the watchdog
        importlib.import_module('dst.props.' + prop.lower())
    except BaseException:
        pass
    while True:
        try:
            msg = conn.recv()
        except EOFError:
            break
        if msg is None:
            break
        idx, plan = msg
        # a C-level hang cannot be interrupted by SIGALRM: hard-exit a little later
        faulthandler.dump_traceback_later(timeout + 20, exit=True)
        res = run_one(prop, plan, timeout)
        faulthandler.cancel_dump_traceback_later()
        try:
            conn.send((idx, res))
        except BaseException:
            conn.send((idx, {'status': 'harness_error', 'trace': 'unpicklable result', 'plan': plan,
                             'violations': []}))
    conn.close()


class Pool:
    """
    N forked workers, each fed one plan at a time through its own pipe.  A worker that dies
    (signal, hard watchdog exit) yields a CRASH result for exactly the plan it held and is replaced.
    """

    def __init__(self, prop, nworkers=16, timeout=120):
        self.prop, self.n, self.timeout = prop, nworkers, timeout
        self.ctx = mp.get_context(os.environ.get('ANDES_DST_MP', 'spawn'))
        self.workers = []

    def _spawn(self):
        a, b = self.ctx.Pipe()
        p = self.ctx.Process(target=_worker_main, args=(b, self.prop, self.timeout), daemon=True)
        p.start()
        b.close()
        return {'p': p, 'c': a, 'job': None}

    def map(self, plans, on_result=None, deadline=None):
        """Run plans (list); returns results in plan order (None for plans not started before deadline)."""
        results = [None] * len(plans)
        nxt = 0
        self.workers = [self._spawn() for _ in range(min(self.n, max(1, len(plans))))]
        active = 0

        def feed(w):
            nonlocal nxt, active
            if nxt < len(plans) and (deadline is None or time.time() < deadline):
                w['job'] = nxt
                w['c'].send((nxt, plans[nxt]))
                nxt += 1
                active += 1
            else:
                w['job'] = None

        for w in self.workers:
            feed(w)
        while active > 0:
            ready = mpc.wait([w['c'] for w in self.workers if w['job'] is not None], timeout=5)
            for w in list(self.workers):
                if w['job'] is None:
                    continue
                if w['c'] in ready:
                    try:
                        idx, res = w['c'].recv()
                    except (EOFError, OSError):
                        idx, res = w['job'], self._crash_result(w, plans[w['job']])
                        self._replace(w)
                        w = self.workers[-1]
                    results[idx] = res
                    active -= 1
                    if on_result:
                        on_result(idx, res)
                    feed(w)
                elif not w['p'].is_alive():
                    idx = w['job']
                    results[idx] = self._crash_result(w, plans[idx])
                    active -= 1
                    if on_result:
                        on_result(idx, results[idx])
                    self._replace(w)
                    feed(self.workers[-1])
        self.close()
        return results

    def _crash_result(self, w, plan):
        w['p'].join(timeout=5)
        code = w['p'].exitcode
        sig = {'oracle': 'process_crash', 'exitcode': code}
        try:
            mod = importlib.import_module('dst.props.' + self.prop.lower())
            cs = getattr(mod, 'crash_sig', None)
            if cs is not None:
                if plan.get('stub') and hasattr(mod, 'elaborate'):
                    plan = mod.elaborate(plan)
                sig.update(cs(plan))
        except Exception:
            pass
        return {'status': 'crash', 'exitcode': code, 'plan': plan, 'wall': 0.0,
                'violations': [{'oracle': 'process_crash', 'sig': sig,
                                'detail': 'worker process died with exit code %r (signal %s) while executing this plan' %
                                (code, -code if isinstance(code, int) and code < 0 else 'n/a')}]}

    def _replace(self, w):
        try:
            w['c'].close()
        except Exception:
            pass
        self.workers.remove(w)
        self.workers.append(self._spawn())

    def close(self):
        for w in self.workers:
            try:
                w['c'].send(None)
            except Exception:
                pass
        for w in self.workers:
            w['p'].join(timeout=3)
            if w['p'].is_alive():
                w['p'].terminate()
        self.workers = []


# --------------------------------------------------------------------------------------------
# known findings
# --------------------------------------------------------------------------------------------

def load_known(prop):
    path = os.path.join(VERIF, 'known_findings.json')
    if not os.path.isfile(path):
        return []
    with open(path) as f:
        data = json.load(f)
    return [e for e in data.get('findings', []) if e.get('property') == prop and e.get('status') == 'known']


def match_known(known, viol):
    """A known entry matches iff every item of its ``match`` equals the violation signature's item."""
    sig = viol.get('sig', {})
    for e in known:
        m = e.get('match', {})
        if m and all(sig.get(k) == v for k, v in m.items()):
            return e
    return None


def vclass(viol):
    """Violation class used by the minimiser: oracle + sorted signature."""
    return json.dumps(viol.get('sig', {'oracle': viol.get('oracle')}), sort_keys=True, default=str)


# --------------------------------------------------------------------------------------------
# minimisation (ddmin over plan lists + module-specific scalar simplification)
# --------------------------------------------------------------------------------------------

def _has_class(res, cls):
    return any(vclass(v) == cls for v in res.get('violations', []))


def minimise(prop, plan, cls, budget_s=30, timeout=120, log=None):
    """Shrink ``plan`` while a violation of class ``cls`` persists. Each trial runs in a sacrificial process."""
    mod = importlib.import_module('dst.props.' + prop.lower())
    t_end = time.time() + budget_s
    trials = [0]

    def test(p):
        if time.time() > t_end:
            return False
        trials[0] += 1
        pool = Pool(prop, 1, timeout)
        res = pool.map([p])[0]
        return res is not None and _has_class(res, cls)

    def get(p, path):
        for k in path:
            p = p[k]
        return p

    def setp(p, path, val):
        q = json.loads(json.dumps(p))
        t = q
        for k in path[:-1]:
            t = t[k]
        t[path[-1]] = val
        return q

    cur = json.loads(json.dumps(plan))
    for path in getattr(mod, 'SHRINK_LISTS', []):
        path = list(path) if isinstance(path, (list, tuple)) else [path]
        try:
            items = get(cur, path)
        except (KeyError, IndexError, TypeError):
            continue
        if not isinstance(items, list) or not items:
            continue
        n = 2
        while len(items) >= 1 and time.time() < t_end:
            chunk = max(1, len(items) // n)
            reduced = False
            for i in range(0, len(items), chunk):
                cand = items[:i] + items[i + chunk:]
                p2 = setp(cur, path, cand)
                if test(p2):
                    items, cur, reduced = cand, p2, True
                    n = max(n - 1, 2)
                    break
            if not reduced:
                if chunk == 1:
                    break
                n = min(n * 2, len(items))
    simp = getattr(mod, 'simplify', None)
    if simp is not None:
        progress = True
        while progress and time.time() < t_end:
            progress = False
            for cand in simp(cur):
                if time.time() > t_end:
                    break
                if test(cand):
                    cur, progress = cand, True
                    break
    if log:
        log('minimised with %d trials' % trials[0])
    return cur


# --------------------------------------------------------------------------------------------
# replay
# --------------------------------------------------------------------------------------------

def write_replay(prop, seed, plan, viol, extra=None):
    d = os.environ.get('ANDES_DST_REPLAY_DIR') or os.path.join(VERIF, 'replays')
    os.makedirs(d, exist_ok=True)
    path = os.path.join(d, '%s-%s-%s.json' % (prop, seed, hashlib.sha256(vclass(viol).encode()).hexdigest()[:8]))
    with open(path, 'w') as f:
        json.dump({'property': prop, 'seed': seed, 'plan': plan, 'violation': viol, 'class': vclass(viol),
                   'extra': extra or {}}, f, indent=1, default=str)
    return path


def replay_fresh(prop, path, timeout=300):
    """Replay a file in a fresh interpreter; returns (exitcode, stdout)."""
    env = dict(os.environ)
    env['ANDES_DST_HASHSEED'] = '7'   # another hash seed than the batch used
    env.pop('ANDES_DST_CHILD', None)
    r = subprocess.run([PY, os.path.join(VERIF, 'check'), prop, '--replay', path, '--no-verify'],
                       env=env, stdout=subprocess.PIPE, stderr=subprocess.STDOUT, timeout=timeout)
    return r.returncode, r.stdout.decode(errors='replace')


# --------------------------------------------------------------------------------------------
# evidence
# --------------------------------------------------------------------------------------------

def write_evidence(prop, tier, seed, level, coverage, wall, violations, assumptions):
    d = os.environ.get('ANDES_DST_EVIDENCE_DIR') or os.path.join(VERIF, 'evidence')    # sensitivity runs write elsewhere
    os.makedirs(d, exist_ok=True)
    ev = {'property_id': prop, 'tier': tier, 'seed': int(seed), 'level': level, 'coverage': coverage,
          'assumptions': assumptions, 'wall_s': round(wall, 2), 'violations': int(violations)}
    tmp = os.path.join(d, prop + '.json.tmp')
    with open(tmp, 'w') as f:
        json.dump(ev, f, indent=1, default=str)
    os.replace(tmp, os.path.join(d, prop + '.json'))
    return ev


REAL_COMPONENTS = [
    'andes.System and all models', 'PFlow/TDS/EIG routines', 'KLU/UMFPACK (kvxopt) and SuperLU (scipy) back-ends',
    'xlsx/json/psse/matpower readers and writers', 'dill snapshot save/load', 'generated pycode (sympy code generator)',
    'TDSData loader and csv export/replay', 'numpy npz/lst output writers']
STUB_COMPONENTS = [
    'wall clock (SimClock in andes.routines.tds.time) when qrt is on', 'tqdm progress bar (disabled)',
    'disk fault layer (patched numpy.savez_compressed/np.load/open inside the run context)',
    'process crash (SimCrash raised from seams; restart from durable artefacts only)',
    'DiME streaming (disabled; dime not installed)']
