"""
C17 -- failure is reported as failure.

Fault enumeration: the failure catalogue below x routine x position is enumerated completely in every
run (fixed plans), then seeded combinations are added.  Every constructed or injected failure must end in
a False flag, a non-zero exit code, dependants that refuse to run, and no NaN / partial state presented
as a solution; every reported success is re-examined by the simulator (residual / end time).

classes
  pf_overload        loads scaled beyond the nose                    -> PFlow.run() False
  pf_nan             solver seam returns NaN at iteration k           -> False, no NaN solution stored
  pf_iter_limit      iteration limit of 1-2 on a case that needs more -> False
  pf_no_slack        slack generator switched off                      -> False (or a success whose residual passes)
  pf_zero_z          zero-impedance branch                             -> False / loud, never NaN "solution"
  pf_moderate        loads scaled 1..3 (may or may not converge)       -> success <=> residual < tol
  tds_nan            solver NaN at attempt k                           -> TDS.run() False
  tds_collapse       every attempt from k on is rejected               -> step size collapses, False
  tds_shrinkt0       fixed step, shrinkt=0, one forced rejection       -> False
  tds_criteria       long bus fault, stability criterion trips         -> False (if it trips)
  tds_bad_init       power-flow hand-over corrupted before TDS.init    -> test_ok False and run() not True
  dep_after_pf_fail  TDS.run / EIG.run after a failed power flow       -> both refuse, time not advanced
  io_missing         non-existent file, unknown extension              -> andes.run(cli=True) != 0, load() None
  io_truncated       case file cut at a seeded byte (xlsx/json/raw/m)  -> non-zero exit or exception, never 0
  seq_retry          fail, repair the cause, run again                 -> second run True with exit code 0
  seq_ok_then_fail   succeed, then make the same System infeasible (loads altered x50 / iteration limit 0 / solver NaN)
                     and run again                                      -> second run False, dependants refuse
"""

import json
import os
import shutil

import numpy as np

from dst import core, gen, tdssim
from dst.core import stream
from dst.seams import Seq, SolverTap, StepTap
from dst.tdssim import V
from dst.world import build_system, case_path, scratch_dir

PROP = 'C17'
LEVEL = 'fault_enumeration'
COUNTS = {'quick': 350, 'thorough': 8000}
BUDGET = {'quick': 110, 'thorough': 1500}
TIMEOUT = 200
SHRINK_LISTS = []
EXPECTED_PROBES = ['later_routine_after_failure', 'failure_constructed', 'success_reexamined', 'dependant_checked', 'cli_checked', 'nan_injected',
                   'collapse_reached', 'criteria_tripped', 'io_corrupted', 'nk_run', 'nk_failed']
RULE = ('fixed catalogue (class x case x position) enumerated completely, then seeded combinations; non-trivial = the failure '
        'actually occurred (routine did fail / fault fired) or a success was re-examined; distinct = (class, case, position/format)')
ASSUMPTIONS = [
    'PF success is re-examined with the routine\'s own residual evaluation at the reported solution (independent AC balance is C01, not claimed)',
    'for corrupt input an exception that would terminate the CLI with a non-zero status counts as reported; exit status 0 never does',
    'truncation inside a value that still parses to a valid file of the same structure is not detectable and not demanded',
]

SMALL = ['kundur/kundur_full.xlsx', 'ieee14/ieee14_fault.xlsx', '5bus/pjm5bus.json', 'smib/SMIB.xlsx', 'wecc/wecc_gencls.xlsx',
         'ieee14/ieee14_linetrip.xlsx', 'kundur/kundur_sexs.xlsx']
STATIC = ['wscc9/wscc9.xlsx', 'ieee39/ieee39.xlsx', 'ieee14/ieee14.json']
NK_CASES = ['kundur/kundur_full.xlsx', 'ieee14/ieee14.json', 'wscc9/wscc9.xlsx', '5bus/pjm5bus.json', 'ieee14/ieee14_fault.xlsx']
IO_FILES = ['kundur/kundur_full.xlsx', 'kundur/kundur_full.json', 'ieee14/ieee14.raw', 'matpower/case14.m', 'kundur/kundur.raw',
            '5bus/pjm5bus.json', 'wscc9/wscc9.raw', 'matpower/case5.m']


def fixed_catalogue():
    out = []
    for ci, case in enumerate(SMALL[:4]):
        out.append({'cls': 'pf_overload', 'case': case, 'scale': 30.0})
        for k in (0, 1, 2):
            out.append({'cls': 'pf_nan', 'case': case, 'k': k})
        out.append({'cls': 'pf_iter_limit', 'case': case, 'max_iter': 0})
        out.append({'cls': 'pf_no_slack', 'case': case})
        out.append({'cls': 'pf_zero_z', 'case': case})
        for k in (0, 1, 5, 31, 40):
            out.append({'cls': 'tds_nan', 'case': case, 'k': k})
        for k in (0, 3, 33):
            out.append({'cls': 'tds_collapse', 'case': case, 'k': k})
        for k in (0, 7, 32):
            out.append({'cls': 'tds_shrinkt0', 'case': case, 'k': k})
        out.append({'cls': 'tds_bad_init', 'case': case, 'how': 'handover'})
        out.append({'cls': 'dep_after_pf_fail', 'case': case})
        out.append({'cls': 'seq_retry', 'case': case})
        for how in ('overload', 'iter_limit', 'nan'):
            out.append({'cls': 'seq_ok_then_fail', 'case': case, 'how': how})
    for case, sc in (('kundur/kundur_full.xlsx', 3.0), ('ieee14/ieee14.json', 30.0), ('wscc9/wscc9.xlsx', 30.0), ('ieee14/ieee14.json', 1.5)):
        out.append({'cls': 'pf_nk', 'case': case, 'scale': sc})
    out.append({'cls': 'tds_criteria', 'case': 'kundur/kundur_full.xlsx', 'dur': 1.0})
    out.append({'cls': 'tds_criteria', 'case': 'ieee14/ieee14_fault.xlsx', 'dur': 1.5})
    for f in IO_FILES:
        out.append({'cls': 'io_truncated', 'file': f, 'frac': 0.5})
        out.append({'cls': 'io_truncated', 'file': f, 'frac': 0.0})
    out.append({'cls': 'io_missing', 'name': 'no_such_case.xlsx'})
    out.append({'cls': 'io_missing', 'name': 'kundur_full.foo'})
    return [dict(p, property=PROP, seed=core.H('fixed17', i)) for i, p in enumerate(out)]


def plans(seed, tier, count):
    out = fixed_catalogue()
    i = 0
    while len(out) < count:
        out.append({'stub': True, 'seed': core.H(seed, PROP, i), 'tier': tier})
        i += 1
    return out


def elaborate(stub):
    seed = stub['seed']
    r = stream(seed, 'class')
    cls = r.choice(['pf_overload', 'pf_nan', 'pf_iter_limit', 'pf_moderate', 'pf_moderate', 'tds_nan', 'tds_nan', 'tds_collapse',
                    'tds_shrinkt0', 'tds_criteria', 'tds_bad_init', 'dep_after_pf_fail', 'io_truncated', 'io_truncated',
                    'seq_retry', 'pf_no_slack', 'pf_zero_z', 'seq_ok_then_fail', 'seq_ok_then_fail', 'pf_nk'])
    c = stream(seed, 'case')
    p = {'property': PROP, 'seed': seed, 'cls': cls}
    if cls.startswith('io_'):
        p['file'] = c.choice(IO_FILES)
        p['frac'] = round(c.random(), 4)
        return p
    dyn = cls.startswith('tds') or cls in ('dep_after_pf_fail', 'seq_retry', 'seq_ok_then_fail')
    p['case'] = gen.pick_case(c, include_big=False)['case'] if dyn else c.choice(SMALL + STATIC)
    if cls == 'pf_overload':
        p['scale'] = c.choice([8.0, 15.0, 40.0, 100.0])
    if cls == 'pf_moderate':
        p['scale'] = round(c.uniform(1.0, 4.0), 3)
        p['method'] = c.choice(['NR', 'dishonest', 'NR'])
    if cls == 'pf_nan':
        p['k'] = c.randint(0, 3)
    if cls == 'pf_nk':
        p['case'] = c.choice(NK_CASES)
        p['scale'] = c.choice([1.0, 1.5, 3.0, 8.0, 30.0, 100.0])
    if cls == 'pf_iter_limit':
        p['max_iter'] = c.choice([0, 1])
    if cls in ('tds_nan', 'tds_collapse', 'tds_shrinkt0'):
        p['k'] = c.randint(0, 70)
        p['knobs'] = {'TDS.tstep': c.choice([1 / 30, 1 / 60, 0.02])}
        if c.random() < 0.3:
            p['knobs']['TDS.fixt'] = 0 if cls != 'tds_shrinkt0' else 1
        if c.random() < 0.3:
            p['knobs']['TDS.sparselib'] = c.choice(['umfpack', 'spsolve'])
    if cls == 'tds_criteria':
        p['dur'] = c.choice([0.6, 1.0, 2.0])
    if cls == 'tds_bad_init':
        p['how'] = c.choice(['handover', 'handover_small', 'param'])
    if cls == 'seq_ok_then_fail':
        p['how'] = c.choice(['overload', 'iter_limit', 'nan'])
        p['scale'] = c.choice([30.0, 50.0, 100.0])
        p['k'] = c.randint(0, 2)
        p['between'] = c.choice(['none', 'none', 'tds', 'eig'])
    return p


# --------------------------------------------------------------------------------------------
# helpers
# --------------------------------------------------------------------------------------------

def finite(a):
    return bool(np.all(np.isfinite(a)))


def call(fn, *a, **kw):
    """Call a routine entry point; an exception is an observation."""
    try:
        return fn(*a, **kw), None
    except Exception as e:
        import traceback
        tb = traceback.extract_tb(e.__traceback__)
        where = 'unknown'
        for fr in reversed(tb):
            if '/andes/' in fr.filename and '/verif/' not in fr.filename:
                where = '%s:%s' % (os.path.basename(fr.filename), fr.name)
                break
        return None, {'type': type(e).__name__, 'where': where, 'msg': str(e)[:200]}


def check_failed_pf(ss, ret, exc, cls, v, probes):
    if exc is not None:
        v.append(V('failure_reported', 'PFlow.run() raised %s in %s instead of returning False: %s' % (exc['type'], exc['where'], exc['msg']),
                   cls=cls, what='raised', where=exc['where']))
        return
    if ret is not False:
        return
    probes['failure_constructed'] = probes.get('failure_constructed', 0) + 1
    if ss.exit_code == 0:
        v.append(V('failure_reported', 'PFlow.run() returned False but System.exit_code is 0', cls=cls, what='exit_code_zero'))
    if ss.PFlow.converged is not False:
        v.append(V('failure_reported', 'PFlow.run() returned False but PFlow.converged is %r' % ss.PFlow.converged, cls=cls,
                   what='converged_flag'))
    if ss.PFlow.x_sol is not None or ss.PFlow.y_sol is not None:
        v.append(V('failure_reported', 'a failed power flow left a stored solution (x_sol/y_sol)', cls=cls, what='solution_kept'))


def check_dependants(ss, cls, v, probes):
    """After a failed power flow TDS.run and EIG.run must refuse."""
    probes['dependant_checked'] = probes.get('dependant_checked', 0) + 1
    t0 = float(ss.dae.t)
    ec = ss.exit_code
    ss.TDS.config.tf = 0.5
    ret, exc = call(ss.TDS.run)
    if exc is not None:
        v.append(V('dependant', 'TDS.run() after a failed power flow raised %s in %s' % (exc['type'], exc['where']), cls=cls,
                   routine='TDS', what='raised'))
    elif ret is not False:
        v.append(V('dependant', 'TDS.run() after a failed power flow returned %r' % ret, cls=cls, routine='TDS', what='ran'))
    else:
        if float(ss.dae.t) != t0 or len(ss.dae.ts._ys) > 0:
            v.append(V('dependant', 'TDS.run() refused but time advanced (%r -> %r) or rows were stored' % (t0, float(ss.dae.t)),
                       cls=cls, routine='TDS', what='advanced'))
        if ss.exit_code <= ec and ss.exit_code == 0:
            v.append(V('dependant', 'TDS.run() refused but exit code stays 0', cls=cls, routine='TDS', what='exit_code_zero'))
    if ss.dae.n or any(m.n and m.flags.tds for m in ss.models.values()):
        ret, exc = call(ss.EIG.run)
        if exc is not None:
            v.append(V('dependant', 'EIG.run() after a failed power flow raised %s in %s: %s' % (exc['type'], exc['where'], exc['msg']),
                       cls=cls, routine='EIG', what='raised'))
        elif ret is not False:
            v.append(V('dependant', 'EIG.run() after a failed power flow returned %r' % ret, cls=cls, routine='EIG', what='ran'))


def reexamine_pf_success(ss, cls, v, probes, tol=None):
    probes['success_reexamined'] = probes.get('success_reexamined', 0) + 1
    tol = tol or ss.PFlow.config.tol
    if not (finite(ss.dae.x) and finite(ss.dae.y)):
        v.append(V('success_valid', 'PFlow.run() True with non-finite solution', cls=cls, what='nan'))
        return
    ss.PFlow.fg_update()
    res = float(np.max(np.abs(ss.dae.fg))) if (ss.dae.n + ss.dae.m) else 0.0
    if not res < tol:
        v.append(V('success_valid', 'PFlow.run() True but the residual at the reported solution is %.3g >= tol %.3g' % (res, tol),
                   cls=cls, what='residual'))
    if ss.exit_code != 0:
        v.append(V('success_valid', 'PFlow.run() True but exit code %d' % ss.exit_code, cls=cls, what='exit_code'))


def scale_loads(factor):
    def pre(ss):
        for i in range(ss.PQ.n):
            ss.PQ.p0.v[i] *= factor
            ss.PQ.q0.v[i] *= factor
    return pre


# --------------------------------------------------------------------------------------------
# scenarios
# --------------------------------------------------------------------------------------------

def sc_pf_overload(p, v, probes):
    ss = build_system(p['case'], knobs={'TDS.no_tqdm': 1}, pre_setup=scale_loads(p['scale']))
    ret, exc = call(ss.PFlow.run)
    check_failed_pf(ss, ret, exc, p['cls'], v, probes)
    if ret is True:
        reexamine_pf_success(ss, p['cls'], v, probes)
    elif ret is False:
        check_dependants(ss, p['cls'], v, probes)
    return [p['case'], p['scale'] >= 20]


def sc_pf_nk(p, v, probes):
    """Newton-Krylov variant (non-default PFlow.method): an infeasible case must end in False, not in an exception or a success."""
    import contextlib
    import io as _io
    ss = build_system(p['case'], knobs={'TDS.no_tqdm': 1, 'PFlow.method': 'NK'}, pre_setup=scale_loads(p['scale']))
    with contextlib.redirect_stdout(_io.StringIO()):          # SciPy prints its iteration log
        ret, exc = call(ss.PFlow.run)
    probes['nk_run'] = 1
    check_failed_pf(ss, ret, exc, p['cls'], v, probes)
    if ret is True:
        # the residual test of this variant is SciPy's (f_tol = eps**(1/3) ~ 6.1e-6 on the max norm)
        reexamine_pf_success(ss, p['cls'], v, probes, tol=max(ss.PFlow.config.tol, 6.2e-6))
    elif ret is False:
        probes['nk_failed'] = 1
        check_dependants(ss, p['cls'], v, probes)
    return [p['case'], p['scale'], bool(ret)]


def sc_pf_moderate(p, v, probes):
    ss = build_system(p['case'], knobs={'TDS.no_tqdm': 1, 'PFlow.method': p.get('method', 'NR')},
                      pre_setup=scale_loads(p['scale']))
    ret, exc = call(ss.PFlow.run)
    check_failed_pf(ss, ret, exc, p['cls'], v, probes)
    if ret is True:
        reexamine_pf_success(ss, p['cls'], v, probes)
    return [p['case'], round(p['scale']), p.get('method'), bool(ret)]


def sc_pf_nan(p, v, probes):
    ss = build_system(p['case'], knobs={'TDS.no_tqdm': 1})
    orig = ss.PFlow.solver.solve
    n = {'i': 0, 'fired': 0}

    def solve(A, b):
        r = orig(A, b)
        if n['i'] == p['k']:
            n['fired'] += 1
            r = np.full(len(np.ravel(r)), np.nan)
        n['i'] += 1
        return r
    ss.PFlow.solver.solve = solve
    ret, exc = call(ss.PFlow.run)
    probes['nan_injected'] = n['fired']
    if n['fired']:
        if ret is True:
            v.append(V('failure_reported', 'solver returned NaN at iteration %d but PFlow.run() returned True' % p['k'], cls=p['cls'],
                       what='true_after_nan'))
        check_failed_pf(ss, ret, exc, p['cls'], v, probes)
        if ret is False:
            ss.PFlow.solver.__dict__.pop('solve', None)
            check_dependants(ss, p['cls'], v, probes)
    return [p['case'], p['k']]


def sc_pf_iter_limit(p, v, probes):
    ss = build_system(p['case'], knobs={'TDS.no_tqdm': 1}, pre_setup=scale_loads(1.3))
    ss.PFlow.config.max_iter = p['max_iter']
    ret, exc = call(ss.PFlow.run)
    check_failed_pf(ss, ret, exc, p['cls'], v, probes)
    if ret is True:
        reexamine_pf_success(ss, p['cls'], v, probes)
    return [p['case'], p['max_iter'], bool(ret)]


def sc_pf_no_slack(p, v, probes):
    def pre(ss):
        for i in range(ss.Slack.n):
            ss.Slack.u.v[i] = 0
    ss = build_system(p['case'], knobs={'TDS.no_tqdm': 1}, pre_setup=pre)
    ret, exc = call(ss.PFlow.run)
    check_failed_pf(ss, ret, exc, p['cls'], v, probes)
    if ret is True:
        reexamine_pf_success(ss, p['cls'], v, probes)
    return [p['case'], bool(ret)]


def sc_pf_zero_z(p, v, probes):
    def pre(ss):
        ss.Line.x.v[0] = 0.0
        ss.Line.r.v[0] = 0.0
    ss = build_system(p['case'], knobs={'TDS.no_tqdm': 1}, pre_setup=pre)
    with np.errstate(all='ignore'):
        ret, exc = call(ss.PFlow.run)
    check_failed_pf(ss, ret, exc, p['cls'], v, probes)
    if ret is True:
        reexamine_pf_success(ss, p['cls'], v, probes)
    return [p['case'], bool(ret)]


def _tds_with_faults(p, faults, knobs=None, events=None, tf=1.3, disable_stock=False):
    plan = {'case': p['case'], 'knobs': dict(p.get('knobs') or {}, **(knobs or {})), 'channels': {}, 'events': events or [],
            'disable_stock_events': disable_stock, 'segments': [tf], 'seed': p['seed'],
            'faults': [{'seam': 'solver', 'kind': kind, 'at_attempt': k} for k, kind in faults.items()]}
    return tdssim.simulate(plan, taps_kwargs={'persist': False, 'check_mirror': False})


def check_failed_tds(ss, hist, cls, v, probes, fired):
    seg = hist['segments'][-1] if hist['segments'] else None
    if not fired or seg is None:
        return
    probes['failure_constructed'] = probes.get('failure_constructed', 0) + 1
    if hist.get('exception'):
        # already recorded as run_exception by the engine
        return
    if seg['ret']:
        v.append(V('failure_reported', 'TDS.run() returned True although the run was made to fail (%s) at t=%.4f' % (cls, seg['t_end']),
                   cls=cls, what='run_true'))
    else:
        if seg['exit_code'] == 0:
            v.append(V('failure_reported', 'TDS.run() returned False but exit code is 0', cls=cls, what='exit_code_zero'))
    # no NaN row in the stored series
    ts = ss.dae.ts
    if len(ts.t) and not (finite(ts.x) and finite(ts.y)):
        v.append(V('failure_reported', 'stored series contains non-finite values after a failed run', cls=cls, what='nan_rows'))
    # rows only from accepted attempts
    acc = {a['t'] for a in hist['attempts'] if a['converged']}
    extra = [r['t'] for r in hist['store_log'] if r['t'] not in acc]
    if extra:
        v.append(V('failure_reported', 'rows stored for rejected/aborted steps at t=%s' % extra[:3], cls=cls, what='rows_from_rejected'))
    if not seg['ret'] and seg['exit_code'] != 0 and not v:
        # a later routine that succeeds must not wipe the recorded failure (the process exit status accumulates)
        ec = int(ss.exit_code)
        ret2, exc2 = call(ss.EIG.run)
        probes['later_routine_after_failure'] = probes.get('later_routine_after_failure', 0) + 1
        if exc2 is None and int(ss.exit_code) < ec:
            v.append(V('failure_reported', 'after the failed TDS (exit code %d) EIG.run() returned %r and the exit code is now %d' %
                       (ec, ret2, int(ss.exit_code)), cls=cls, what='exit_code_lost', later='EIG'))


def sc_tds_nan(p, v, probes):
    ss, hist = _tds_with_faults(p, {p['k']: 'nan'})
    v += [x for x in hist['violations'] if x['oracle'] != 'config_effective']
    fired = hist['faults_fired'].get('nan', 0)
    probes['nan_injected'] = fired
    check_failed_tds(ss, hist, p['cls'], v, probes, fired)
    if fired and hist['segments'] and not hist['segments'][-1]['ret']:
        # a later retry without the fault must not present the NaN state as a solution
        if not (finite(ss.dae.x) and finite(ss.dae.y)):
            v.append(V('failure_reported', 'dae.x/y hold NaN after the failed run', cls=p['cls'], what='nan_state'))
    v += tdssim.o_success_consistent(hist)
    return [p['case'], min(p['k'], 40) // 10, p.get('knobs', {}).get('TDS.sparselib', 'klu')], hist


def sc_tds_collapse(p, v, probes):
    faults = {k: 'reject' for k in range(p['k'], p['k'] + 400)}
    ss, hist = _tds_with_faults(p, faults)
    v += [x for x in hist['violations'] if x['oracle'] != 'config_effective']
    fired = hist['faults_fired'].get('reject_step', 0)
    seg = hist['segments'][-1] if hist['segments'] else None
    if fired and seg is not None and seg['busted']:
        probes['collapse_reached'] = 1
    check_failed_tds(ss, hist, p['cls'], v, probes, fired)
    v += tdssim.o_success_consistent(hist)
    v += tdssim.o_reject_noop(hist)
    return [p['case'], min(p['k'], 40) // 10, p.get('knobs', {}).get('TDS.fixt', 1)], hist


def sc_tds_shrinkt0(p, v, probes):
    ss, hist = _tds_with_faults(p, {p['k']: 'reject'}, knobs={'TDS.shrinkt': 0, 'TDS.fixt': 1})
    v += [x for x in hist['violations'] if x['oracle'] != 'config_effective']
    fired = hist['faults_fired'].get('reject_step', 0)
    check_failed_tds(ss, hist, p['cls'], v, probes, fired)
    v += tdssim.o_success_consistent(hist)
    return [p['case'], min(p['k'], 40) // 10], hist


def sc_tds_criteria(p, v, probes):
    probe = build_system(p['case'], setup=False)
    bus = list(probe.Bus.idx.v)[min(3, probe.Bus.n - 1)]
    bus = bus.item() if hasattr(bus, 'item') else bus
    ev = [{'model': 'Fault', 'params': {'bus': bus, 'tf': 0.1, 'tc': 0.1 + p['dur'], 'xf': 1e-4, 'idx': 'C17F'}}]
    ss, hist = _tds_with_faults(p, {}, events=ev, tf=0.1 + p['dur'] + 1.5, disable_stock=True)
    v += [x for x in hist['violations'] if x['oracle'] != 'config_effective']
    seg = hist['segments'][-1] if hist['segments'] else None
    if seg is not None and not seg['ret']:
        probes['criteria_tripped'] = int('criteria' in (ss.TDS.err_msg or '').lower())
        check_failed_tds(ss, hist, p['cls'], v, probes, True)
    elif seg is not None and seg['ret']:
        # success: re-examine
        probes['success_reexamined'] = probes.get('success_reexamined', 0) + 1
        if ss.SynGen.n and ss.TDS.config.criteria:
            # the documented criterion re-evaluated by the simulator from the machines themselves (not from the address list the
            # routine keeps): rotor angles of the in-service synchronous machines of the one island this plan leaves intact
            deltas = []
            for mdl in ss.SynGen.models.values():
                for i in range(mdl.n):
                    if float(mdl.u.v[i]) == 1:
                        deltas.append(float(ss.dae.x[int(mdl.delta.a[i])]))
            one_island = len(getattr(ss.Bus, 'island_sets', []) or []) <= 1 and not len(getattr(ss.Bus, 'islanded_buses', []) or [])
            if one_island and len(deltas) >= 2:
                spread = float(np.rad2deg(max(deltas) - min(deltas)))
                probes['criterion_reexamined'] = probes.get('criterion_reexamined', 0) + 1
                if spread >= float(ss.TDS.config.ddelta_limit):
                    v.append(V('success_valid', 'TDS.run() True although the rotor angles of the in-service machines are %.1f degrees apart at '
                               'the end (stability criterion: %.0f degrees)' % (spread, float(ss.TDS.config.ddelta_limit)), cls=p['cls'],
                               what='criteria'))
    v += tdssim.o_success_consistent(hist)
    return [p['case'], p['dur']], hist


def sc_tds_bad_init(p, v, probes):
    ss = build_system(p['case'], knobs={'TDS.no_tqdm': 1})
    if not ss.PFlow.run():
        return [p['case'], 'pf-failed'], None
    how = p.get('how', 'handover')
    if how.startswith('handover'):
        nb = ss.Bus.n
        f = 1.08 if how == 'handover' else 1.0 + 2e-3
        ss.PFlow.y_sol[nb:2 * nb] *= f     # bus voltage magnitudes handed over to the dynamics
    else:
        # inconsistent dynamic data: move a synchronous machine's inertia-irrelevant but init-relevant reactance
        for name in ('GENROU', 'GENCLS'):
            m = ss.models[name]
            if m.n:
                m.xd1.v[0] = -abs(m.xd1.v[0])
                break
    ss.TDS.config.tf = 0.3
    ec0 = ss.exit_code
    with np.errstate(all='ignore'):
        _, exc = call(ss.TDS.init)
    if exc is not None:
        return [p['case'], how, 'init-raised'], None
    res = float(np.max(np.abs(ss.dae.fg))) if ss.dae.n + ss.dae.m else 0.0
    tol = ss.TDS.config.tol
    probes['success_reexamined'] = probes.get('success_reexamined', 0) + 1
    if ss.TDS.test_ok is True and not res < tol:
        v.append(V('init_reported', 'TDS.init() reports success but max residual is %.3g >= tol' % res, cls=p['cls'], what='test_ok_true'))
    if ss.TDS.test_ok is False:
        probes['failure_constructed'] = probes.get('failure_constructed', 0) + 1
        if ss.exit_code <= ec0:
            v.append(V('init_reported', 'initialisation failed (residual %.3g) but exit code did not increase' % res, cls=p['cls'],
                       what='exit_code'))
        with np.errstate(all='ignore'):
            ret, exc = call(ss.TDS.run)
        if exc is None and ret is True:
            v.append(V('failure_reported', 'TDS.run() returned True although dynamic initialisation failed (max residual %.3g)' % res,
                       cls=p['cls'], what='run_true_after_failed_init'))
    return [p['case'], how, ss.TDS.test_ok], None


def sc_dep_after_pf_fail(p, v, probes):
    ss = build_system(p['case'], knobs={'TDS.no_tqdm': 1}, pre_setup=scale_loads(50.0))
    ret, exc = call(ss.PFlow.run)
    check_failed_pf(ss, ret, exc, p['cls'], v, probes)
    if ret is False:
        check_dependants(ss, p['cls'], v, probes)
    # never-run power flow: dependants must refuse as well
    ss2 = build_system(p['case'], knobs={'TDS.no_tqdm': 1})
    ret2, exc2 = call(ss2.EIG.run)
    if exc2 is not None:
        v.append(V('dependant', 'EIG.run() before any power flow raised %s in %s' % (exc2['type'], exc2['where']), cls=p['cls'],
                   routine='EIG', what='raised_no_pf'))
    elif ret2 is not False:
        v.append(V('dependant', 'EIG.run() before any power flow returned %r' % ret2, cls=p['cls'], routine='EIG', what='ran_no_pf'))
    return [p['case']]


def sc_seq_retry(p, v, probes):
    """fail -> repair the cause -> run again: success must be reported as success with exit code 0 (and vice versa)."""
    ss = build_system(p['case'], knobs={'TDS.no_tqdm': 1})
    ss.PFlow.config.max_iter = 0
    r1, e1 = call(ss.PFlow.run)
    check_failed_pf(ss, r1, e1, p['cls'], v, probes)
    ss.PFlow.config.max_iter = 25
    r2, e2 = call(ss.PFlow.run)
    if e2 is not None or r2 is not True:
        v.append(V('retry', 'power flow retried after repairing the iteration limit returned %r / %r' % (r2, e2), cls=p['cls'],
                   what='retry_failed'))
    else:
        reexamine_pf_success(ss, p['cls'], v, probes)
        ss.TDS.config.tf = 0.2
        r3, e3 = call(ss.TDS.run)
        if e3 is not None or r3 is not True or ss.exit_code != 0:
            v.append(V('retry', 'TDS after a repaired power flow returned %r (exit code %d)' % (r3 if e3 is None else e3, ss.exit_code),
                       cls=p['cls'], what='tds_after_retry'))
    return [p['case'], bool(r1)]


def sc_seq_ok_then_fail(p, v, probes):
    """succeed -> (optionally use the result) -> make the same System infeasible -> run again: the second run must report failure."""
    ss = build_system(p['case'], knobs={'TDS.no_tqdm': 1})
    r1, e1 = call(ss.PFlow.run)
    if e1 is not None or r1 is not True:
        return [p['case'], p['how'], 'first_failed']
    reexamine_pf_success(ss, p['cls'], v, probes)
    between = p.get('between', 'none')
    if between == 'eig' and ss.dae.n:
        call(ss.EIG.run)
    how = p['how']
    tap = None
    if how == 'overload':
        f = p.get('scale', 50.0)
        for idx in list(ss.PQ.idx.v):
            ss.PQ.alter('p0', idx, f * ss.PQ.get('p0', idx))
            ss.PQ.alter('q0', idx, f * ss.PQ.get('q0', idx))
    elif how == 'iter_limit':
        # a perturbed start (flat) that needs more than the allowed single iteration
        ss.PFlow.config.max_iter = 0
        ss.PFlow.config.init_tol = 1e-9
        for idx in list(ss.PQ.idx.v)[:1]:
            ss.PQ.alter('p0', idx, 1.5 * ss.PQ.get('p0', idx) + 0.1)
    elif how == 'nan':
        for idx in list(ss.PQ.idx.v)[:1]:
            ss.PQ.alter('p0', idx, 1.2 * ss.PQ.get('p0', idx) + 0.05)
        k = p.get('k', 0)
        orig = ss.PFlow.solver.solve
        n = {'i': 0, 'fired': 0}

        def solve(A, b):
            r = orig(A, b)
            if n['i'] == k:
                n['fired'] += 1
                r = np.full(len(np.ravel(r)), np.nan)
            n['i'] += 1
            return r
        ss.PFlow.solver.solve = solve
        tap = n
    r2, e2 = call(ss.PFlow.run)
    if tap is not None:
        ss.PFlow.solver.__dict__.pop('solve', None)
        probes['nan_injected'] = probes.get('nan_injected', 0) + tap['fired']
        if not tap['fired']:
            return [p['case'], how, between, 'fault_not_reached']
    check_failed_pf(ss, r2, e2, p['cls'], v, probes)
    if r2 is True:
        reexamine_pf_success(ss, p['cls'], v, probes)
    elif r2 is False:
        check_dependants(ss, p['cls'], v, probes)
    return [p['case'], how, between, bool(r2)]


def sc_io_missing(p, v, probes):
    import andes
    d = scratch_dir('c17-')
    try:
        path = os.path.join(d, p['name'])
        if p['name'].endswith('.foo'):
            shutil.copy(case_path('kundur/kundur_full.xlsx'), path)
        probes['cli_checked'] = 1
        code, exc = call(andes.run, path, cli=True, no_output=True, default_config=True, verbose=50, autogen_stale=False)
        if exc is None and code == 0:
            v.append(V('io_reported', 'andes.run(%r, cli=True) returned exit code 0' % p['name'], cls=p['cls'], what='exit_zero'))
        ss, exc = call(andes.load, path, no_output=True, default_config=True, autogen_stale=False)
        if exc is None and ss is not None:
            v.append(V('io_reported', 'andes.load(%r) returned a System' % p['name'], cls=p['cls'], what='loaded'))
        probes['failure_constructed'] = 1
    finally:
        shutil.rmtree(d, ignore_errors=True)
    return [p['name'].split('.')[-1]]


def sc_io_truncated(p, v, probes):
    import andes
    src = case_path(p['file'])
    with open(src, 'rb') as f:
        blob = f.read()
    cut = int(len(blob) * p['frac'])
    d = scratch_dir('c17-')
    try:
        path = os.path.join(d, os.path.basename(p['file']))
        with open(path, 'wb') as f:
            f.write(blob[:cut])
        kw = {}
        if p['file'].endswith('.raw'):
            dyr = src[:-4] + '.dyr'
            if os.path.isfile(dyr) and p.get('with_dyr', True):
                shutil.copy(dyr, os.path.join(d, os.path.basename(dyr)))
        probes['io_corrupted'] = 1
        probes['cli_checked'] = 1
        with np.errstate(all='ignore'):
            code, exc = call(andes.run, path, cli=True, no_output=True, default_config=True, verbose=50, autogen_stale=False, **kw)
        fmt = p['file'].split('.')[-1]
        if exc is not None:
            probes['failure_constructed'] = 1     # would terminate the CLI with a traceback and status 1
        elif code != 0:
            probes['failure_constructed'] = 1
        else:
            # exit status 0 on a truncated file: accepted only if the truncated file is still the complete data
            ref = andes.load(src, no_output=True, default_config=True, setup=False, autogen_stale=False)
            got = andes.load(path, no_output=True, default_config=True, setup=False, autogen_stale=False)
            same = got is not None and _same_data(ref, got)
            if not same:
                v.append(V('io_reported', '%s truncated to %d of %d bytes: andes.run(cli=True) returned 0 on incomplete data' %
                           (p['file'], cut, len(blob)), cls=p['cls'], fmt=fmt, what='exit_zero_partial'))
    finally:
        shutil.rmtree(d, ignore_errors=True)
    return [p['file'].split('.')[-1], int(p['frac'] * 4)]


def _same_data(a, b):
    da, db = a.as_dict(vin=False), b.as_dict(vin=False)
    if set(da) != set(db):
        return False
    for m in da:
        for k in da[m]:
            x, y = np.asarray(da[m][k]), np.asarray(db[m].get(k))
            if x.shape != y.shape:
                return False
    return True


SCENARIOS = {
    'pf_overload': sc_pf_overload, 'pf_nk': sc_pf_nk, 'pf_moderate': sc_pf_moderate, 'pf_nan': sc_pf_nan, 'pf_iter_limit': sc_pf_iter_limit,
    'pf_no_slack': sc_pf_no_slack, 'pf_zero_z': sc_pf_zero_z, 'tds_nan': sc_tds_nan, 'tds_collapse': sc_tds_collapse,
    'tds_shrinkt0': sc_tds_shrinkt0, 'tds_criteria': sc_tds_criteria, 'tds_bad_init': sc_tds_bad_init,
    'dep_after_pf_fail': sc_dep_after_pf_fail, 'seq_retry': sc_seq_retry, 'seq_ok_then_fail': sc_seq_ok_then_fail, 'io_missing': sc_io_missing,
    'io_truncated': sc_io_truncated,
}


def execute(plan):
    if plan.get('stub'):
        plan = elaborate(plan)
    res = {'plan': plan, 'violations': []}
    probes = {}
    hist = None
    try:
        out = SCENARIOS[plan['cls']](plan, res['violations'], probes)
        if isinstance(out, tuple):
            sigparts, hist = out
        else:
            sigparts = out
        res['probes'] = probes
        res['sig'] = json.dumps([plan['cls']] + list(sigparts), default=str)
        res['nontrivial'] = bool(probes.get('failure_constructed') or probes.get('success_reexamined'))
        res['faults'] = dict(hist['faults_fired']) if hist else {}
        if probes.get('io_corrupted'):
            res['faults']['truncated_input'] = 1
        res['sim_seconds'] = tdssim.t_reached(hist) if hist else 0.0
        res['steps'] = hist['n_attempts'] if hist else 0
        d = core.Digest()
        d.add(res['sig'], sorted(core.vclass(x) for x in res['violations']), sorted(probes.items()))
        if hist:
            d.add(len(hist['attempts']), tdssim.t_reached(hist))
        res['digest'] = d.hex()
    finally:
        if hist is not None:
            tdssim.cleanup(hist)
    return res


def extra_coverage(results, tier):
    by = {}
    for r in results:
        c = (r.get('plan') or {}).get('cls')
        by[c] = by.get(c, 0) + 1
    return {'plans_per_class': by, 'exhaustive': False,
            'exhaustive_subspaces': ['fixed catalogue of %d (class x case x position) plans run completely' % len(fixed_catalogue())]}
