"""
C10 -- variable addressing is a bijection and external links follow device indices.

Engine: lifecycle-sim.  A stock case is taken apart into device rows and rebuilt through System.add in a seeded
order (file order, reversed, models shuffled, fully interleaved) with seeded index re-typing per group (numeric <->
string, consistently across every reference).  Then a seeded lifecycle runs: setup -> power flow -> [reset -> power
flow] -> dynamic initialisation (second addressing phase) -> a few simulated steps -> [snapshot save/load].  After
EVERY operation the reference checker (dst/addrcheck.py) verifies: every internal variable of every addressed device
owns exactly one slot, all slots are owned once, slot names name that variable of that device, and -- with a unique
sentinel written into every slot -- reads through the model, Model.get, Group.get and every external link return the
sentinel of the slot the index field names.  The rebuilt system must also solve to the same bus voltages as the stock
file (a wrong link changes the physics).
"""

import io
import json

import numpy as np

from dst import addrcheck, core, gen, rebuild
from dst.core import stream
from dst.tdssim import V
from dst.world import build_system, catalogue

PROP = 'C10'
LEVEL = 'exploration'
COUNTS = {'quick': 160, 'thorough': 5000}
BUDGET = {'quick': 110, 'thorough': 1500}
TIMEOUT = 240
SHRINK_LISTS = [['ops']]
EXPECTED_PROBES = ['digit_string_indices', 'slots_checked', 'reads_checked', 'ext_links_checked', 'second_phase', 'after_reset', 'after_snapshot',
                   'string_indices', 'interleaved_order', 'collated_models', 'zero_based_indices']
RULE = ('plan = (stock case, add order, per-group index typing, lifecycle op list); non-trivial = the checker ran after dynamic '
        'initialisation (both addressing phases); distinct = (case, order, set of re-typed groups, op list)')
ASSUMPTIONS = [
    'device rows are read from the loaded stock file; event / output-selection devices are dropped from the rebuilt system',
    'index parameters that do not declare their target are re-typed by naming convention (dst/rebuild.py: UNTYPED)',
    'bus voltages of the rebuilt system are compared with the stock file by bus name when names are unique',
]
ORDERS = ['file', 'reverse', 'models_shuffled', 'interleave', 'interleave']


def cases():
    return [c['case'] for c in catalogue()['cases'] if not c.get('error') and c.get('pf') and c.get('test_ok') and c.get('n')]


def plans(seed, tier, count):
    out = []
    cs = cases()
    big = set(gen.BIG)
    # every case once in file order with stock indices (fixed), then seeded orders / typings
    for i, c in enumerate(cs):
        if c in big:
            continue
        out.append({'property': PROP, 'seed': core.H('fix10', i), 'case': c, 'order': 'file', 'modes': 'keep',
                    'ops': ['setup', 'pflow', 'tds_init']})
    # zero-based numeric indices everywhere: index 0 is legal and falsy (optional links REGCP1.pll, IEEEG1.syn2 resolve through it)
    for j, c in enumerate(['ieee14/ieee14_regcp1.xlsx', 'kundur/kundur_ieeeg1.xlsx', 'kundur/kundur_full.xlsx']):
        out.insert(j, {'property': PROP, 'seed': core.H('fix10z', j), 'case': c, 'order': 'file', 'modes': 'int0',
                       'ops': ['setup', 'pflow', 'tds_init', 'steps']})
    # indices that are strings of digits ('2', '07'): they stay strings, whoever reads them (model, group, borrowed index fields)
    for j, c in enumerate(['kundur/kundur_full.xlsx', 'ieee14/ieee14_full.xlsx', 'kundur/kundur_ieeest.xlsx']):
        out.insert(j, {'property': PROP, 'seed': core.H('fix10d', j), 'case': c, 'order': 'file', 'modes': 'digits',
                       'ops': ['setup', 'pflow', 'tds_init', 'steps']})
    for j, c in enumerate(['kundur/kundur_full.xlsx', 'ieee14/ieee14_wt3.xlsx']):
        out.insert(j, {'property': PROP, 'seed': core.H('fix10c', j), 'case': c, 'order': 'file', 'modes': 'keep',
                       'ops': ['setup', 'pflow', 'tds_init', 'steps'], 'collate': 0.6})
    i = 0
    while len(out) < count:
        out.append({'stub': True, 'seed': core.H(seed, PROP, i), 'tier': tier})
        i += 1
    return out[:max(count, 1)]


def elaborate(stub):
    seed = stub['seed']
    r = stream(seed, 'case')
    cs = [c for c in cases() if c not in gen.BIG or (stub.get('tier') == 'thorough' and r.random() < 0.2)]
    case = r.choice(cs)
    o = stream(seed, 'ops')
    ops = ['setup', 'pflow']
    if o.random() < 0.3:
        ops += ['reset', 'pflow']
    ops += ['tds_init']
    if o.random() < 0.6:
        ops += ['steps']
    if o.random() < (0.12 if stub.get('tier') != 'thorough' else 0.3):
        ops += ['snapshot']
    cl = stream(seed, 'collate')
    return {'property': PROP, 'seed': seed, 'case': case, 'order': r.choice(ORDERS), 'modes': 'seeded', 'ops': ops,
            'collate': round(cl.random(), 3) if cl.random() < 0.3 else 0}


def execute(plan):
    if plan.get('stub'):
        plan = elaborate(plan)
    res = {'plan': plan, 'violations': []}
    v = res['violations']
    probes = {}
    ss0 = build_system(plan['case'], setup=False)
    rows = rebuild.extract(ss0)
    rng = stream(plan['seed'], 'rebuild')
    modes = {ss0.models[m].group: 'keep' for m, _ in rows} if plan['modes'] == 'keep' else (
        {ss0.models[m].group: plan['modes'] for m, _ in rows} if plan['modes'] in ('int0', 'digits') else None)
    rows2, maps, modes = rebuild.remap(ss0, rows, rng, modes)
    rows3 = rebuild.shuffled(rows2, rng, plan['order'])
    retyped = sorted(g for g, m in modes.items() if m != 'keep')
    probes['string_indices'] = int(any(m == 'str' for m in modes.values()))
    probes['zero_based_indices'] = int(any(m == 'int0' for m in modes.values()))
    probes['digit_string_indices'] = int(any(m == 'digits' for m in modes.values()))
    probes['interleaved_order'] = int(plan['order'] == 'interleave')
    ss = rebuild.build(rows3)
    # storage layout: variables collated by device instead of by variable for a seeded subset of the models (ModelFlags.collate);
    # Bus is excluded (the connectivity check documents contiguous bus addresses)
    if plan.get('collate'):
        cr = stream(plan['seed'], 'collate-models')
        for name, mdl in ss.models.items():
            if mdl.n >= 2 and name != 'Bus' and cr.random() < plan['collate']:
                mdl.flags.collate = True
                probes['collated_models'] = probes.get('collated_models', 0) + 1
    ops_done = []
    try:
        for op in plan['ops']:
            if op == 'setup':
                if not ss.setup():
                    v.append(V('lifecycle', 'setup() of the rebuilt system failed (order %s, re-typed groups %s)' % (plan['order'], retyped),
                               what='setup_failed'))
                    break
            elif op == 'pflow':
                if not ss.PFlow.run():
                    v.append(V('lifecycle', 'power flow of the rebuilt system does not converge (order %s, re-typed %s)' %
                               (plan['order'], retyped), what='pflow_failed'))
                    break
                _compare_with_stock(plan, ss, v)
            elif op == 'reset':
                ss.reset()
                probes['after_reset'] = 1
            elif op == 'tds_init':
                ss.TDS.config.no_tqdm = 1
                ss.TDS.init()
                probes['second_phase'] = 1
                if ss.TDS.test_ok is not True:
                    v.append(V('lifecycle', 'dynamic initialisation of the rebuilt system fails (stock file initialises)', what='init_failed'))
            elif op == 'steps':
                ss.TDS.config.tf = 0.1
                ss.TDS.run()
            elif op == 'snapshot':
                from andes.utils.snapshot import load_ss, save_ss
                buf = io.BytesIO()
                save_ss(buf, ss)
                ss = load_ss(io.BytesIO(buf.getvalue()))
                probes['after_snapshot'] = 1
            ops_done.append(op)
            v += addrcheck.check(ss, 'after ' + '+'.join(ops_done[-2:]), probes)
            if v:
                break
    except Exception as e:
        import traceback
        tb = traceback.extract_tb(e.__traceback__)
        where = next(('%s:%s' % (fr.filename.split('/')[-1], fr.name) for fr in reversed(tb) if '/andes/' in fr.filename), None)
        if where is None:
            raise
        v.append(V('lifecycle', 'operation %r raised %s in %s: %s (order %s, re-typed %s)' %
                   (plan['ops'][len(ops_done)], type(e).__name__, where, str(e)[:120], plan['order'], retyped),
                   what='raised', where=where))
    res['probes'] = probes
    res['faults'] = {}
    if probes.get('after_snapshot'):
        res['faults']['snapshot_restore'] = 1
    if probes.get('after_reset'):
        res['faults']['reset'] = 1
    res['sig'] = json.dumps([plan['case'], plan['order'], retyped, plan['ops']])
    res['nontrivial'] = bool(probes.get('second_phase'))
    res['steps'] = len(ops_done)
    d = core.Digest()
    d.add(res['sig'], sorted(core.vclass(x) for x in v), sorted(probes.items()), ss.dae.n, ss.dae.m)
    res['digest'] = d.hex()
    return res


_stock_cache = {}


def _compare_with_stock(plan, ss, v):
    """Same physics: bus voltage magnitudes of the rebuilt system equal the stock file's (by bus name)."""
    ref = build_system(plan['case'], knobs={'TDS.no_tqdm': 1})
    if not ref.PFlow.run():
        return
    names = list(ref.Bus.name.v)
    if len(set(names)) != len(names) or len(names) != ss.Bus.n:
        return
    va = dict(zip(names, ref.Bus.v.v))
    vb = dict(zip(ss.Bus.name.v, ss.Bus.v.v))
    if set(va) != set(vb):
        return
    d = max(abs(va[n] - vb[n]) for n in va)
    if d > 1e-6:
        v.append(V('same_system', 'rebuilt system (order %s) solves to bus voltages %.3g away from the stock file' % (plan['order'], d),
                   what='voltages'))


def simplify(plan):
    if plan.get('modes') != 'keep':
        q = json.loads(json.dumps(plan))
        q['modes'] = 'keep'
        yield q
    if plan.get('order') != 'file':
        q = json.loads(json.dumps(plan))
        q['order'] = 'file'
        yield q
