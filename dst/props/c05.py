"""
C05 -- dynamic initialisation is an equilibrium consistent with the power flow (simulation clauses).

Engine: tds-sim.  Every stock case is initialised and then simulated *flat* (no event) under seeded knobs
(method, step, solver, tolerance), optionally split into resumed segments and under quasi-real-time stepping
with a simulated wall clock (steady / slow / jumpy / stalled).  Oracles:
  report      test_ok is True  <=>  the simulator's own reading of max|f|,|g| after init is below tol
  handover    bus angle/voltage slots equal the power-flow solution bit-exactly after the address extension
  stays       if every limiter is strictly inside at init (precondition evaluated from the flags) the state
              does not move: drift over the flat run <= 20 * max(init residual, 1e-10) + 1e-8 (relative)
  corrupted   a corrupted hand-over (seeded bus voltage / angle perturbation of the stored PF solution, or a
              static generator's set-point changed after the power flow) must give test_ok False, a raised
              exit code and a run() that does not return True
  clock       the simulated trajectory must not depend on the wall clock (qrt with skewed clocks == plain run)
"""

import json

import numpy as np

from dst import core, gen, tdssim
from dst.core import stream
from dst.seams import SimClock
from dst.tdssim import V
from dst.world import catalogue

PROP = 'C05'
LEVEL = 'exploration'
COUNTS = {'quick': 400, 'thorough': 6000}
BUDGET = {'quick': 110, 'thorough': 1500}
TIMEOUT = 240
SHRINK_LISTS = [['segments_cut']]
EXPECTED_PROBES = ['offline_unit', 'init_ok', 'init_failed_reported', 'flat_checked', 'precondition_unmet', 'corrupted_handover', 'qrt_clock',
                   'resumed']
RULE = ('plan = (every stock case in turn, seeded knobs, flat run split into seeded resumed segments, optional qrt + simulated clock '
        'mode, optional hand-over corruption); non-trivial = initialisation ran and an oracle was evaluated on a case with states; '
        'distinct = (case, method, sparselib, tol class, segments, clock mode, corruption kind)')
ASSUMPTIONS = [
    'limiter precondition is read from the zl/zu flags of every discrete component right after init',
    'states with a zero time constant (undetermined filter states) are excluded from the drift measure',
    'combinations of dynamic models beyond those present in the stock cases are not generated (input generation)',
]


def all_cases():
    return [c['case'] for c in catalogue()['cases'] if not c.get('error') and c.get('pf') and c.get('n')]


def plans(seed, tier, count):
    cases = all_cases()
    out = []
    # the whole catalogue once with default knobs (fixed), then seeded variations
    for i, c in enumerate(cases):
        out.append({'property': PROP, 'seed': core.H('fix05', i), 'case': c, 'knobs': {}, 'channels': {}, 'tf': 1.0,
                    'segments_cut': [], 'clock': None, 'corrupt': None})
    for k in range(3):
        out.append({'property': PROP, 'seed': core.H('fix05off', k), 'case': '5bus/pjm5bus.json', 'knobs': {}, 'channels': {}, 'tf': 0.5,
                    'segments_cut': [], 'clock': None, 'corrupt': None, 'offline': {'unit': (k + 0.5) / 3}})
    # one unit out of service in every exciter / governor family of the catalogue (models with iteratively initialised loops included)
    fam = ['ieee14/ieee14_exac1.xlsx', 'ieee14/ieee14_esac1a.xlsx', 'ieee14/ieee14_ac8b.xlsx', 'ieee14/ieee14_esst3a.xlsx',
           'ieee14/ieee14_esst4b.xlsx', 'ieee14/ieee14_esdc1a.xlsx', 'kundur/kundur_full.xlsx', 'kundur/kundur_sexs.xlsx',
           'kundur/kundur_exst1.xlsx', 'kundur/kundur_esdc2a.xlsx', 'ieee14/ieee14_hygov.xlsx', 'ieee14/ieee14_gast.xlsx',
           'ieee14/ieee14_ieesgo.xlsx', 'wecc/wecc_gencls.xlsx', 'ieee39/ieee39_full.xlsx', 'ieee14/ieee14_ieeet1.xlsx',
           'ieee14/ieee14_exac4.xlsx', 'ieee14/ieee14_esst1a.xlsx']
    for k, c in enumerate(fam):
        for u in (0.05, 0.3, 0.55, 0.8, 0.95):
            out.append({'property': PROP, 'seed': core.H('fix05fam', k, u), 'case': c, 'knobs': {}, 'channels': {}, 'tf': 0.3,
                        'segments_cut': [], 'clock': None, 'corrupt': None, 'offline': {'unit': u}})
    # residuals that are not numbers: a NaN in the hand-over / a zero droop; every other residual stays zero
    for k, (c, kind) in enumerate([('kundur/kundur_full.xlsx', 'v_nan'), ('kundur/kundur_full.xlsx', 'gov_R0'), ('ieee14/ieee14_fault.xlsx', 'v_nan'),
                                   ('ieee39/ieee39_full.xlsx', 'gov_R0')]):
        out.append({'property': PROP, 'seed': core.H('fix05nan', k), 'case': c, 'knobs': {}, 'channels': {}, 'tf': 0.2,
                    'segments_cut': [], 'clock': None, 'corrupt': {'kind': kind, 'bus_frac': 0.4, 'amount': 0.0}})
    i = 0
    while len(out) < count:
        out.append({'stub': True, 'seed': core.H(seed, PROP, i), 'tier': tier})
        i += 1
    return out


def elaborate(stub):
    seed = stub['seed']
    rng = stream(seed, 'case')
    cases = all_cases()
    big = set(gen.BIG)
    case = rng.choice([c for c in cases if c not in big or (stub.get('tier') == 'thorough' and rng.random() < 0.3)] or cases)
    k = stream(seed, 'knobs')
    knobs = {'TDS.tstep': k.choice([1 / 30, 1 / 60, 0.02, 0.05])}
    if k.random() < 0.3:
        knobs['TDS.method'] = 'backeuler'
    if k.random() < 0.4:
        knobs['TDS.tol'] = k.choice([1e-6, 1e-8])
    if k.random() < 0.3:
        knobs['TDS.sparselib'] = k.choice(['umfpack', 'spsolve'])
        knobs['PFlow.sparselib'] = knobs['TDS.sparselib']
    if k.random() < 0.2:
        knobs['TDS.fixt'] = 0
    if k.random() < 0.2:
        knobs['TDS.honest'] = 1
    channels = gen.pick_channels(stream(seed, 'channels'), knobs)
    tf = k.choice([0.5, 1.0, 1.5])
    segs = gen.draw_segments(stream(seed, 'splits'), tf, knobs['TDS.tstep'], max_seg=3)
    c = stream(seed, 'clock')
    clock = None
    if c.random() < 0.25:
        clock = {'mode': c.choice(['steady', 'slow', 'jumpy', 'stalled', 'fast'])}
    f = stream(seed, 'corrupt')
    corrupt = None
    if f.random() < 0.25:
        corrupt = {'kind': f.choice(['v', 'a', 'v_small', 'v_nan', 'gov_R0']), 'bus_frac': f.random(), 'amount': f.choice([0.02, 0.05, 0.1])}
    o = stream(seed, 'offline')
    offline = None
    if o.random() < 0.2 and not corrupt:
        offline = {'unit': o.random()}
    return {'property': PROP, 'seed': seed, 'case': case, 'knobs': knobs, 'channels': channels, 'tf': tf,
            'segments_cut': segs[:-1], 'clock': clock, 'corrupt': corrupt, 'offline': offline}


def _take_unit_offline(ss, pick, info):
    """Before set-up: one generating unit completely out of service (static generator, machine and its controllers)."""
    units = []
    # converter-interfaced generation has capability curves that depend on the (now different) operating point; whether it can
    # still reproduce its share of the power flow is a data question, so the variant is confined to synchronous systems
    if any(mm.n and mm.group in ('DG', 'RenGen') for mm in ss.models.values()):
        return
    for name in ('GENCLS', 'GENROU'):
        m = ss.models[name]
        for i in range(m.n):
            try:
                sg = ss.StaticGen.idx2model(m.gen.v[i])
            except KeyError:
                continue
            # a cross-compound governor (IEEEG1.syn2) ties two machines into one unit: not taken apart
            compound = any(hasattr(g, 'syn2') and any(m.idx.v[i] in (a, b) and b is not None for a, b in zip(g.syn.v, g.syn2.v))
                           for g in ss.TurbineGov.models.values() if g.n)
            # a static generator shared with converter-interfaced devices (PVD1, ESD1, REGCA1 ... refer to it through `gen`) is not a
            # plain synchronous unit: switching it off would leave those devices injecting into a bus without their share
            shared = any(mm.n and mm.group != 'SynGen' and 'gen' in mm.params and
                         any(g2 == m.gen.v[i] for g2 in mm.gen.v) for mm in ss.models.values())
            if sg.class_name != 'Slack' and not compound and not shared:
                units.append((name, i, sg))
    if not units:
        return
    name, i, sg = units[int(pick * len(units)) % len(units)]
    m = ss.models[name]
    sidx, gidx = m.idx.v[i], m.gen.v[i]
    sg.u.v[list(sg.idx.v).index(gidx)] = 0
    m.u.v[i] = 0
    for grp, field in (('TurbineGov', 'syn'), ('Exciter', 'syn')):
        for md in ss.groups[grp].models.values():
            for k in range(md.n):
                if md.__dict__[field].v[k] == sidx:
                    md.u.v[k] = 0
    info['unit'] = '%s %s' % (name, sidx)


def limiters_inside(ss):
    """True iff no limiter-type discrete component is at or beyond a bound and no anti-windup holds a state."""
    for item in ss.antiwindups:
        if len(item.x_set) > 0:
            return False
    for mdl in ss.exist.pflow_tds.values():
        if not mdl.n:
            continue
        for d in mdl.discrete.values():
            for fl in ('zl', 'zu'):
                z = getattr(d, fl, None)
                if z is not None and np.any(np.asarray(z) != 0):
                    return False
    return True


def execute(plan):
    if plan.get('stub'):
        plan = elaborate(plan)
    res = {'plan': plan, 'violations': []}
    v = res['violations']
    probes = {}
    hist = tdssim.new_hist()
    rc_dir = None
    try:
        if any(c == 'rc' for c in (plan.get('channels') or {}).values()):
            rc_dir = tdssim.scratch_dir('c05-')
            hist['scratch'] = rc_dir
        knobs = dict(plan['knobs'])
        if plan.get('clock'):
            knobs['TDS.qrt'] = 1
            knobs['TDS.kqrt'] = 1.0
        p = dict(plan, knobs=knobs, flat=True, events=[], disable_stock_events=False)
        off_info = {}
        if plan.get('offline'):
            from dst.world import build_system as _bs
            kk, ch = dict(tdssim.DEFAULT_KNOBS), plan.get('channels') or {}
            kk.update(knobs)
            ss = _bs(plan['case'], knobs=kk, channels=ch, rc_dir=rc_dir, extra={'flat': True},
                     pre_setup=lambda s_: _take_unit_offline(s_, plan['offline']['unit'], off_info))
            kn = kk
            probes['offline_unit'] = int(bool(off_info.get('unit')))
        else:
            ss, kn = tdssim.build(p, rc_dir=rc_dir)
        v += tdssim.check_config(ss, kn)
        if not ss.PFlow.run():
            res.update(precondition_unmet=1, nontrivial=False, sig='pf-failed', digest='pf-failed')
            return res
        y_pf = ss.PFlow.y_sol.copy()
        sg_before = {n: np.array(m.u.v, dtype=float).copy() for n, m in ss.StaticGen.models.items() if m.n}
        nb = ss.Bus.n
        a_addr = np.array(ss.Bus.a.a)
        v_addr = np.array(ss.Bus.v.a)
        corrupt = plan.get('corrupt')
        if corrupt:
            # an isolated bus has its equations neutralised: corrupting its value is not a corruption of the hand-over
            live = [k for k in range(nb) if k not in set(int(i) for i in ss.Bus.islanded_buses)]
            b = live[int(corrupt['bus_frac'] * len(live)) % len(live)]
            if corrupt['kind'] == 'v':
                ss.PFlow.y_sol[v_addr[b]] *= (1 + corrupt['amount'])
            elif corrupt['kind'] == 'v_small':
                ss.PFlow.y_sol[v_addr[b]] *= (1 + 2e-3)
            elif corrupt['kind'] == 'v_nan':
                # a not-a-number in the hand-over: the residuals it reaches are NaN, all others stay zero
                ss.PFlow.y_sol[v_addr[b]] = np.nan
            elif corrupt['kind'] == 'gov_R0':
                # inconsistent data that makes one residual NaN (0 * 1/0) and leaves every other one at zero: zero droop
                gov = next((m for m in (ss.TGOV1, ss.TGOV1N) if m.n), None)
                if gov is None:
                    ss.PFlow.y_sol[v_addr[b]] = np.nan
                else:
                    gi = int(corrupt['bus_frac'] * gov.n) % gov.n
                    gov.alter('R', gov.idx.v[gi], 0.0)
            else:
                ss.PFlow.y_sol[a_addr[b]] += corrupt['amount']
            probes['corrupted_handover'] = 1
        y_hand = ss.PFlow.y_sol.copy()
        ec0 = ss.exit_code
        try:
            with np.errstate(all='ignore'):
                ss.TDS.init()
        except Exception as e:
            if corrupt and corrupt['kind'] in ('v_nan', 'gov_R0') and ss.TDS.test_ok is not True:
                # a not-a-number reached an iteratively initialised model (SciPy refuses non-finite input): the initialisation ended
                # with an exception, which is not a reported success -- nothing more to judge in this plan
                probes['init_raised_on_nan'] = 1
                res['probes'] = probes
                res['faults'] = {'handover_' + corrupt['kind']: 1}
                res['sig'] = json.dumps([plan['case'], 'init-raised', corrupt['kind']])
                res['nontrivial'] = True
                res['digest'] = 'init-raised-%s' % type(e).__name__
                return res
            raise
        tol = ss.TDS.config.tol
        fg = np.concatenate([ss.dae.f, ss.dae.g])
        resid = float(np.max(np.abs(fg))) if fg.size else 0.0
        if not np.isfinite(resid):
            resid = float('inf')
        ok = ss.TDS.test_ok
        # --- a static generator that was out of service in the power flow is never switched on by the dynamic initialisation
        for n, ub in sg_before.items():
            ua = np.array(ss.models[n].u.v, dtype=float)
            on = np.where((ub == 0) & (ua != 0))[0]
            if len(on):
                v.append(V('handover', 'static generator %s %r was out of service in the power flow and is in service after dynamic '
                           'initialisation' % (n, ss.models[n].idx.v[int(on[0])]), what='static_gen_switched_on'))
        static_left = any(np.any(np.asarray(m_.u.v) != 0) for m_ in ss.StaticGen.models.values() if m_.n)
        cat0 = next((c_ for c_ in catalogue()['cases'] if c_['case'] == plan['case']), None)
        stock_inits = cat0 is not None and cat0.get('test_ok') is True        # e.g. ieee14_zip does not initialise as shipped
        if plan.get('offline') and off_info.get('unit') and ok is False and \
                (len(ss.Bus.nosw_island) + len(ss.Bus.msw_island) > 0 or static_left or not stock_inits):
            # the removal left an island without (or with two) slack, or a static generator without a machine picks up the
            # difference in the power flow but keeps its p0 in the dynamics (kundur_islands): no consistent data any more
            probes['precondition_unmet'] = probes.get('precondition_unmet', 0) + 1
        elif plan.get('offline') and off_info.get('unit') and ok is False:
            # one violation per (model, variable) with a residual: a recorded finding on one model must not hide another model
            names = ss.dae.x_name + ss.dae.y_name
            seen = set()
            for j in np.argsort(-np.abs(np.nan_to_num(fg, nan=np.inf))):
                if not abs(fg[j]) > max(tol, 1e-4) or len(seen) >= 6:
                    break
                toks = names[int(j)].split(' ')
                key = (toks[1] if len(toks) > 1 else '?', toks[0])
                if key in seen:
                    continue
                seen.add(key)
                v.append(V('init_offline', 'with unit %s completely out of service (static generator, machine, governor, exciter) '
                           'initialisation fails: residual %.3g at <%s>' % (off_info['unit'], float(fg[j]), names[int(j)]),
                           model=key[0], var=key[1]))
        # --- report <=> residual
        if ok is True and not resid < tol:
            v.append(V('init_report', 'test_ok True but max residual after init is %.3g >= tol %.3g' % (resid, tol), what='true_but_residual'))
        if ok is False and resid < tol:
            v.append(V('init_report', 'test_ok False but max residual after init is %.3g < tol %.3g' % (resid, tol), what='false_but_zero'))
        if ok is False and ss.exit_code <= ec0:
            v.append(V('init_report', 'initialisation failed but the exit code did not increase', what='exit_code'))
        # --- hand-over: bus slots carry the (possibly corrupted) power-flow values exactly
        if not (np.array_equal(ss.dae.y[a_addr], y_hand[a_addr], equal_nan=True) and
                np.array_equal(ss.dae.y[v_addr], y_hand[v_addr], equal_nan=True)):
            d = max(float(np.max(np.abs(ss.dae.y[a_addr] - y_hand[a_addr]))), float(np.max(np.abs(ss.dae.y[v_addr] - y_hand[v_addr]))))
            v.append(V('handover', 'bus angles/voltages after dynamic initialisation differ from the power-flow solution by %.3g' % d,
                       what='bus_values'))
        if corrupt:
            big_enough = corrupt['kind'] != 'v_small'
            if big_enough and ok is not False:
                v.append(V('corrupted', 'hand-over corrupted (%s) but initialisation reports %r (residual %.3g)' % (corrupt, ok, resid),
                           what='not_reported'))
        # stock data measured consistent on the pinned tree must keep initialising (default tolerance only)
        if not corrupt and not plan.get('offline') and 'TDS.tol' not in plan['knobs'] and ok is not True:
            cat = next((c for c in catalogue()['cases'] if c['case'] == plan['case']), None)
            if cat is not None and cat.get('test_ok') is True:
                v.append(V('init_succeeds', 'stock case with consistent data no longer initialises: test_ok %r, max residual %.3g' %
                           (ok, resid), what='stock_case_fails'))
        probes['init_ok'] = int(ok is True)
        probes['init_failed_reported'] = int(ok is False)
        inside = limiters_inside(ss)
        x0, y0 = ss.dae.x.copy(), ss.dae.y.copy()
        # --- flat run (also after a failed init: run() must then not return True)
        clock = None
        import andes.routines.tds as tdsmod
        if plan.get('clock'):
            clock = SimClock(core.stream(plan['seed'], 'clock'), plan['clock']['mode'])
            if plan['clock']['mode'] == 'fast':
                clock.sleep = lambda s: setattr(clock, 'now', clock.now + 10.0)
            tdsmod.time = clock
            probes['qrt_clock'] = 1
        taps = tdssim.Taps(hist, persist=False, check_mirror=False).install(ss)
        try:
            rets = []
            for tf in list(plan['segments_cut']) + [plan['tf']]:
                ss.TDS.config.tf = tf
                with np.errstate(all='ignore'):
                    rets.append(bool(ss.TDS.run()))
                hist['segments'].append({'tf': tf, 'ret': rets[-1], 't_start': 0.0, 't_end': float(ss.dae.t), 'busted': bool(ss.TDS.busted),
                                         'exit_code': int(ss.exit_code), 'n_attempts': hist['n_attempts']})
                if not rets[-1]:
                    break
        finally:
            import time as _t
            tdsmod.time = _t
            taps.remove()
        probes['resumed'] = max(0, len(hist['segments']) - 1)
        if ok is False and all(rets) and len(rets) == len(plan['segments_cut']) + 1:
            v.append(V('init_report', 'TDS.run() returned True although initialisation had failed (residual %.3g)' % resid,
                       what='run_true_after_failed_init'))
        if ok is True and not corrupt:
            mask = ss.dae.Tf != 0
            if not inside:
                probes['precondition_unmet'] = 1
                res['precondition_unmet'] = 1
            elif all(rets):
                probes['flat_checked'] = 1
                drift = 0.0
                for r in hist['store_log']:
                    if len(r['x']) == len(x0):
                        dx = np.abs(r['x'] - x0) / (1 + np.abs(x0))
                        drift = max(drift, float(np.max(dx[mask])) if mask.any() else 0.0)
                    if len(r['y']) == len(y0):
                        drift = max(drift, float(np.max(np.abs(r['y'] - y0) / (1 + np.abs(y0)))))
                bound = 20 * max(resid, 1e-10) + 1e-8
                res['drift_ratio'] = drift / bound
                if drift > bound:
                    j = None
                    v.append(V('stays', 'undisturbed simulation drifts by %.3g (relative) within %.2f s; init residual %.3g, bound %.3g' %
                               (drift, plan['tf'], resid, bound), what='drift'))
            else:
                v.append(V('stays', 'undisturbed simulation from a successful initialisation returned False at t=%.4f (%s)' %
                           (float(ss.dae.t), ss.TDS.err_msg), what='run_false'))
        if clock is not None and all(rets):
            # wall clock must not influence the simulated grid: every stored stamp is a multiple-of-step sequence ending at tf
            ts = np.array([r['t'] for r in hist['store_log']])
            if len(ts) and (ts[-1] != plan['tf'] or np.any(np.diff(ts) <= 0)):
                v.append(V('clock', 'time grid under qrt with a %s clock is not strictly increasing up to tf' % plan['clock']['mode'],
                           what='grid'))
        k = plan['knobs']
        res['probes'] = probes
        res['faults'] = {}
        if clock is not None:
            res['faults']['clock_' + plan['clock']['mode']] = 1
            if clock.jumps:
                res['faults']['clock_jump'] = clock.jumps
        if corrupt:
            res['faults']['handover_' + corrupt['kind']] = 1
        res['sig'] = json.dumps([plan['case'], k.get('TDS.method', 'trapezoid'), k.get('TDS.sparselib', 'klu'), k.get('TDS.tol', 1e-4),
                                 len(plan['segments_cut']), (plan.get('clock') or {}).get('mode'), (corrupt or {}).get('kind')])
        res['nontrivial'] = True
        res['sim_seconds'] = float(ss.dae.t)
        res['steps'] = hist['n_attempts']
        d = core.Digest()
        d.add(resid, ok, ss.dae.x, ss.dae.y, len(hist['store_log']))
        res['digest'] = d.hex()
    finally:
        tdssim.cleanup(hist)
    return res


def simplify(plan):
    for key in ('clock', 'corrupt'):
        if plan.get(key):
            q = json.loads(json.dumps(plan))
            q[key] = None
            yield q
    from dst.props.c06 import simplify as s6
    yield from s6(dict(plan, events=[]))


def extra_coverage(results, tier):
    ratios = [r['drift_ratio'] for r in results if 'drift_ratio' in r]
    cases = sorted({(r.get('plan') or {}).get('case') for r in results if r.get('plan')})
    return {'drift_worst_ratio_to_bound': max(ratios) if ratios else 0.0, 'stock_cases_covered': len(cases),
            'exhaustive_subspaces': ['every loadable stock case with states (%d) initialised and simulated flat at default knobs' %
                                     len(all_cases())]}
