"""
C19 -- cross-references between devices are resolved completely or rejected.

Engine: lifecycle-sim.  A seeded add-sequence history builds a small system device by device through System.add
across several groups (ACTopology, StaticLoad, StaticGen, ACLine, SynGen, TurbineGov, Exciter, PSS, DynLoad, Collection) with
explicit, duplicate, missing, numeric, string and numeric-looking-string indices, in seeded interleaved order (referrers
before or after their targets), optionally with one dangling required reference.  A dict-based registry reference
records what was added.  Oracles:
  uniqueness      indices are unique within each group; an auto-generated index never equals an explicit one added
                  before or after; the index returned by add() retrieves that device
  lookup          idx2model / idx2uid / get / find_idx on model and group level (single and multiple keys, allow_all,
                  allow_none) return exactly the reference's answers, from whichever model of the group holds the device
  backref         after setup every BackRef list holds exactly the referrers that point to that device, once each
  finder          helper devices (BusFreq) found or auto-created for a model measure the right bus and exist at most once per bus
  dangling        a required reference to a non-existent device makes setup() fail (False / exception / exit code) and is
                  never resolved to another device
"""

import json

import numpy as np

from dst import core
from dst.core import stream
from dst.tdssim import V

PROP = 'C19'
LEVEL = 'exploration'
COUNTS = {'quick': 600, 'thorough': 20000}
BUDGET = {'quick': 100, 'thorough': 1500}
TIMEOUT = 120
SHRINK_LISTS = [['adds']]
EXPECTED_PROBES = ['duplicate_idx', 'auto_idx', 'mixed_types', 'later_added_target', 'dangling', 'backref_checked', 'finder_created',
                   'finder_shared', 'lookups', 'group_lookup_across_models', 'after_reset']
RULE = ('plan = seeded add sequence (device kinds, index styles, order, optional dangling reference) + seeded lookup queries; '
        'non-trivial = at least one duplicate/auto index, later-added target or dangling reference; distinct = (index style multiset, '
        'order class, dangling kind, number of devices)')
ASSUMPTIONS = [
    'the registry reference records the index returned by System.add for every device (it does not predict generated names)',
    'required references checked: SynGen.gen/bus, TurbineGov.syn, Exciter.syn, PSS.avr, StaticLoad.bus, ACLine.bus1/bus2, FLoad.pq',
]


def plans(seed, tier, count):
    return [{'stub': True, 'seed': core.H(seed, PROP, i), 'tier': tier} for i in range(count)]


def _style(r, base, k):
    s = r.choice(['int', 'int', 'str', 'numstr', 'none', 'float'])
    if s == 'int':
        return base + k
    if s == 'str':
        return '%s_%d' % (r.choice(['dev', 'X', 'Bus', 'GEN']), base + k)
    if s == 'numstr':
        return str(base + k)
    if s == 'float':
        return float(base + k)
    return None


def elaborate(stub):
    seed = stub['seed']
    r = stream(seed, 'net')
    nb = r.randint(2, 6)
    adds = []
    buses = []
    for k in range(nb):
        idx = _style(r, 1, k) if r.random() < 0.85 else None
        adds.append({'model': 'Bus', 'idx': idx, 'key': 'bus%d' % k, 'params': {'Vn': 110.0}})
        buses.append('bus%d' % k)
    adds.append({'model': 'Area', 'idx': r.choice([1, 'A1', None]), 'key': 'area0', 'params': {}})
    for k in range(1, nb):
        adds.append({'model': 'Line', 'idx': _style(r, 10, k), 'key': 'line%d' % k,
                     'params': {'bus1': '@' + r.choice(buses[:k]), 'bus2': '@' + buses[k], 'x': 0.1, 'r': 0.01}})
    ngen = r.randint(1, min(3, nb))
    gens = []
    for k in range(ngen):
        model = 'Slack' if k == 0 else 'PV'
        adds.append({'model': model, 'idx': _style(r, 1, k), 'key': 'sg%d' % k, 'params': {'bus': '@' + buses[k], 'p0': 0.5, 'v0': 1.0}})
        gens.append(('sg%d' % k, buses[k]))
    for k in range(r.randint(1, nb)):
        adds.append({'model': 'PQ', 'idx': _style(r, 1, k), 'key': 'pq%d' % k,
                     'params': {'bus': '@' + buses[(k + 1) % nb], 'p0': 0.2, 'q0': 0.05}})
    syns = []
    for k, (g, b) in enumerate(gens):
        model = r.choice(['GENCLS', 'GENROU'])
        adds.append({'model': model, 'idx': _style(r, 1, k), 'key': 'syn%d' % k,
                     'params': {'bus': '@' + b, 'gen': '@' + g, 'M': 6.0, 'D': 1.0}})
        syns.append('syn%d' % k)
    avrs = []
    for k, s in enumerate(syns):
        if r.random() < 0.7:
            # IEEEG1 carries an *optional* reference to a second machine (syn2, left empty here unless made dangling below)
            adds.append({'model': r.choice(['TGOV1', 'TGOV1', 'IEEEG1']), 'idx': _style(r, 1, k), 'key': 'gov%d' % k, 'params': {'syn': '@' + s}})
        if r.random() < 0.6:
            adds.append({'model': r.choice(['EXDC2', 'IEEEX1', 'SEXS']), 'idx': _style(r, 1, k), 'key': 'avr%d' % k, 'params': {'syn': '@' + s}})
            avrs.append('avr%d' % k)
    for k, a in enumerate(avrs):
        if r.random() < 0.6:
            adds.append({'model': 'IEEEST', 'idx': _style(r, 1, k), 'key': 'pss%d' % k, 'params': {'avr': '@' + a, 'MODE': 1}})
            if r.random() < 0.3:
                adds.append({'model': 'IEEEST', 'idx': None, 'key': 'pss%db' % k, 'params': {'avr': '@' + a, 'MODE': 1}})
    # duplicates: reuse the proposed idx of an earlier device of the same group
    for a in list(adds):
        if a['model'] in ('PQ', 'PV', 'Bus') and r.random() < 0.12:
            same = [b for b in adds if b['model'] == a['model'] and b is not a and b['idx'] is not None]
            if same:
                a['idx'] = r.choice(same)['idx']
                a['dup'] = True
    dang = None
    if r.random() < 0.25:
        cands = [a for a in adds if a['model'] in ('GENCLS', 'GENROU', 'TGOV1', 'EXDC2', 'IEEEX1', 'SEXS', 'IEEEST', 'PQ', 'Line', 'IEEEG1')]
        opt = [a for a in cands if a['model'] == 'IEEEG1']
        if opt and r.random() < 0.6:
            cands = opt          # an optional reference that is given must exist, too
        if cands:
            a = r.choice(cands)
            field = {'GENCLS': 'gen', 'GENROU': 'gen', 'TGOV1': 'syn', 'EXDC2': 'syn', 'IEEEX1': 'syn', 'SEXS': 'syn', 'IEEEST': 'avr',
                     'PQ': 'bus', 'Line': 'bus2', 'IEEEG1': 'syn2'}[a['model']]
            a['params'][field] = r.choice(['NOPE', 9999, 'Bus_999'])
            a['dangling'] = field
            dang = a['model'] + '.' + field
    order = r.choice(['natural', 'natural', 'reversed', 'shuffled', 'shuffled'])
    if order == 'reversed':
        # references need the *index* of the target, which is only known once the target is added when it is auto-generated:
        # give every referenced target an explicit index first
        pass
    rs = stream(seed, 'resets')
    return {'property': PROP, 'seed': seed, 'adds': adds, 'order': order, 'dangling': dang,
            'queries': [stream(seed, 'q').random() for _ in range(8)],
            'resets': rs.choice([0, 0, 1, 1, 2]) if not dang else 0}


def resolve_order(plan):
    """Order of addition; targets without explicit index must precede their referrers (their index is only known after add)."""
    adds = plan['adds']
    r = stream(plan['seed'], 'order')
    seq = list(range(len(adds)))
    if plan['order'] == 'reversed':
        seq = seq[::-1]
    elif plan['order'] == 'shuffled':
        r.shuffle(seq)
    key2i = {a['key']: i for i, a in enumerate(adds)}
    out, done = [], set()

    def place(i):
        if i in done:
            return
        a = adds[i]
        for val in a['params'].values():
            if isinstance(val, str) and val.startswith('@'):
                j = key2i[val[1:]]
                # a target whose index is auto-generated or a duplicate (replaced) must exist first
                if adds[j]['idx'] is None or adds[j].get('dup'):
                    place(j)
        done.add(i)
        out.append(i)
    for i in seq:
        place(i)
    return out


def execute(plan):
    if plan.get('stub'):
        plan = elaborate(plan)
    import andes
    res = {'plan': plan, 'violations': []}
    v = res['violations']
    probes = {'lookups': 0}
    ss = andes.System(default_config=True, no_output=True, autogen_stale=False)
    adds = plan['adds']
    seq = resolve_order(plan)
    reg = {}            # key -> {'model', 'group', 'idx', 'params'}
    pending = {}        # explicit proposed idx for not-yet-added keys
    for a in adds:
        if a['idx'] is not None and not a.get('dup'):
            pending[a['key']] = a['idx']
    styles = []
    later = 0
    for pos, i in enumerate(seq):
        a = adds[i]
        params = {}
        for k2, val in a['params'].items():
            if isinstance(val, str) and val.startswith('@'):
                tk = val[1:]
                if tk in reg:
                    params[k2] = reg[tk]['idx']
                else:
                    params[k2] = pending[tk]
                    later += 1
            else:
                params[k2] = val
        if a['idx'] is not None:
            params['idx'] = a['idx']
        styles.append(type(a['idx']).__name__ + ('!' if a.get('dup') else ''))
        try:
            got = ss.add(a['model'], dict(params))
        except Exception as e:
            v.append(V('add_raises', 'System.add(%s, idx=%r) raised %s: %s' % (a['model'], a['idx'], type(e).__name__, str(e)[:100]),
                       model=a['model'], type=type(e).__name__))
            break
        mdl = ss.models[a['model']]
        reg[a['key']] = {'model': a['model'], 'group': mdl.group, 'idx': got, 'params': params, 'proposed': a['idx']}
        if a['idx'] is None:
            probes['auto_idx'] = probes.get('auto_idx', 0) + 1
        elif got != a['idx'] or type(got) is not type(a['idx']):
            if a.get('dup'):
                probes['duplicate_idx'] = probes.get('duplicate_idx', 0) + 1
            else:
                # an explicit, unused index must be kept as given
                clash = [k for k, rr in reg.items() if k != a['key'] and rr['group'] == mdl.group and rr['idx'] == a['idx']]
                if not clash:
                    v.append(V('uniqueness', 'add(%s, idx=%r) returned %r although %r was free in group %s' %
                               (a['model'], a['idx'], got, a['idx'], mdl.group), what='explicit_not_kept'))
    probes['later_added_target'] = later
    if len({s.rstrip('!') for s in styles}) > 2:
        probes['mixed_types'] = 1
    if v:
        return _finish(res, plan, probes, styles)
    # ---- uniqueness within groups, retrieval of every returned index
    by_group = {}
    for k, rr in reg.items():
        by_group.setdefault(rr['group'], []).append(rr)
    for g, lst in by_group.items():
        seen = []
        for rr in lst:
            if any(rr['idx'] == s and type(rr['idx']) is type(s) for s in seen) or any(rr['idx'] == s for s in seen):
                v.append(V('uniqueness', 'group %s holds index %r twice' % (g, rr['idx']), what='duplicate_in_group'))
            seen.append(rr['idx'])
        grp = ss.groups[g]
        if grp.n != len(lst):
            v.append(V('uniqueness', 'group %s counts %d devices, %d were added' % (g, grp.n, len(lst)), what='count'))
        for rr in lst:
            try:
                m = grp.idx2model(rr['idx'])
            except KeyError:
                v.append(V('lookup', 'group %s cannot find the device it returned index %r for' % (g, rr['idx']), what='idx2model_missing'))
                continue
            probes['lookups'] += 1
            if m.class_name != rr['model']:
                v.append(V('lookup', 'group %s maps index %r to %s, it was added to %s' % (g, rr['idx'], m.class_name, rr['model']),
                           what='idx2model_wrong'))
    if v:
        return _finish(res, plan, probes, styles)
    # ---- setup and the dangling-reference clause
    ok, exc = None, None
    try:
        ok = ss.setup()
    except Exception as e:
        exc = e
    if plan.get('dangling'):
        probes['dangling'] = 1
        if exc is None and ok is True and ss.exit_code == 0:
            v.append(V('dangling', 'required reference %s points to a non-existent device but setup() succeeded' % plan['dangling'],
                       field=plan['dangling'], what='accepted'))
        return _finish(res, plan, probes, styles)
    if exc is not None or ok is not True:
        v.append(V('setup', 'setup() of a consistent add sequence %s (order %s)' %
                   ('raised %s: %s' % (type(exc).__name__, str(exc)[:120]) if exc is not None else 'returned False', plan['order']),
                   what='failed', type=type(exc).__name__ if exc is not None else 'False'))
        return _finish(res, plan, probes, styles)
    # ---- lookups after setup
    _lookups(ss, reg, by_group, plan, v, probes)
    _backrefs(ss, reg, v, probes)
    _finders(ss, reg, v, probes)
    # ---- a second set-up of the same object (System.reset, once or twice): the same answers, nothing doubled
    nreset = int(plan.get('resets', 0))
    for k in range(nreset):
        if v:
            break
        try:
            ss.reset()
        except Exception as e:
            v.append(V('setup', 'System.reset() number %d raised %s: %s' % (k + 1, type(e).__name__, str(e)[:120]), what='reset_raised',
                       type=type(e).__name__))
            break
        probes['after_reset'] = probes.get('after_reset', 0) + 1
        nb = len(v)
        _lookups(ss, reg, by_group, plan, v, probes)
        _backrefs(ss, reg, v, probes)
        _finders(ss, reg, v, probes)
        for x in v[nb:]:
            x['detail'] = '[after reset %d] ' % (k + 1) + x['detail']
            x['sig'] = dict(x.get('sig', {}), after_reset=True)
    return _finish(res, plan, probes, styles)


def _finish(res, plan, probes, styles):
    res['probes'] = probes
    res['faults'] = {}
    if plan.get('dangling'):
        res['faults']['dangling_reference'] = 1
    if probes.get('duplicate_idx'):
        res['faults']['duplicate_index'] = probes['duplicate_idx']
    res['sig'] = json.dumps([sorted(styles), plan['order'], plan.get('dangling'), len(plan['adds'])])
    res['nontrivial'] = bool(probes.get('duplicate_idx') or probes.get('auto_idx') or probes.get('later_added_target') or probes.get('dangling'))
    res['steps'] = len(plan['adds'])
    d = core.Digest()
    d.add(res['sig'], sorted(core.vclass(x) for x in res['violations']), sorted(probes.items()))
    res['digest'] = d.hex()
    return res


def _same(a, b):
    return a == b and (isinstance(a, str) == isinstance(b, str))


def _lookups(ss, reg, by_group, plan, v, probes):
    keys = sorted(reg)
    for q in plan['queries']:
        rr = reg[keys[int(q * len(keys)) % len(keys)]]
        mdl = ss.models[rr['model']]
        grp = ss.groups[rr['group']]
        uid = next((k for k, i in enumerate(mdl.idx.v) if _same(i, rr['idx'])), None)
        probes['lookups'] += 1
        if uid is None:
            v.append(V('lookup', '%s does not list the index %r it returned' % (rr['model'], rr['idx']), what='idx_list'))
            return
        if mdl.idx2uid(rr['idx']) != uid:
            v.append(V('lookup', '%s.idx2uid(%r) = %r, the device is at position %d' % (rr['model'], rr['idx'], mdl.idx2uid(rr['idx']), uid),
                       what='idx2uid'))
            return
        # get through model and group for a parameter we set
        for pn, val in rr['params'].items():
            if pn in ('idx',) or pn not in mdl.__dict__ or not isinstance(val, (int, float)) or isinstance(val, bool):
                continue
            if pn not in mdl.num_params or pn in ('x', 'r', 'p0', 'q0', 'M', 'D'):   # per-unit converted: compare input values
                got = mdl.get(pn, rr['idx'], 'vin') if getattr(mdl.__dict__[pn], 'vin', None) is not None else mdl.get(pn, rr['idx'], 'v')
            else:
                got = mdl.get(pn, rr['idx'], 'v')
            if float(got) != float(val):
                v.append(V('lookup', '%s.get(%s, %r) = %r, the device was added with %r' % (rr['model'], pn, rr['idx'], got, val), what='get'))
                return
        # find_idx by a reference field, on model and group: must return exactly the reference's devices
        for pn, val in rr['params'].items():
            if pn == 'idx' or pn not in mdl.idx_params:
                continue
            exp_model = [r2['idx'] for r2 in reg.values() if r2['model'] == rr['model'] and _same(r2['params'].get(pn), val)]
            exp_model = _in_model_order(mdl, exp_model)
            try:
                got_all = mdl.find_idx(pn, [val], allow_all=True)[0]
            except Exception as e:
                v.append(V('lookup', '%s.find_idx(%s=%r) raised %s' % (rr['model'], pn, val, type(e).__name__), what='find_idx_raises'))
                return
            probes['lookups'] += 1
            if list(got_all) != exp_model:
                v.append(V('lookup', '%s.find_idx(%s=%r, allow_all) = %r, the devices with that value are %r' %
                           (rr['model'], pn, val, list(got_all), exp_model), what='find_idx_model'))
                return
            if all(pn in m2.__dict__ for m2 in grp.models.values()):
                exp_first = []
                nmod = 0
                for m2 in grp.models.values():      # allow_all: every device with that value, from whichever model of the group holds it
                    cand = [r2['idx'] for r2 in reg.values() if r2['model'] == m2.class_name and _same(r2['params'].get(pn), val)]
                    cand = _in_model_order(m2, cand)
                    if cand:
                        exp_first.extend(cand)
                        nmod += 1
                if nmod > 1:
                    probes['group_lookup_across_models'] = probes.get('group_lookup_across_models', 0) + 1
                exp_first = exp_first or None
                try:
                    gg = grp.find_idx(pn, [val], allow_all=True, allow_none=True, default=None)[0]
                except Exception as e:
                    v.append(V('lookup', 'group %s.find_idx(%s=%r) raised %s: %s' % (rr['group'], pn, val, type(e).__name__, str(e)[:80]),
                               what='find_idx_raises'))
                    return
                if exp_first is not None and list(gg) != exp_first:
                    v.append(V('lookup', 'group %s.find_idx(%s=%r, allow_all) = %r, expected %r' % (rr['group'], pn, val, list(gg), exp_first),
                               what='find_idx_group'))
                    return
        # a value nobody has: model raises / group returns default
        try:
            miss = grp.find_idx('idx', ['__absent__'], allow_none=True, default=None)
            if miss != [None]:
                v.append(V('lookup', 'group %s.find_idx(idx=__absent__, allow_none) = %r' % (rr['group'], miss), what='absent'))
                return
        except Exception:
            pass
        try:
            grp.idx2model('__absent__')
            v.append(V('lookup', 'group %s.idx2model of an absent index did not raise' % rr['group'], what='absent'))
            return
        except KeyError:
            pass


def _in_model_order(mdl, idxs):
    return [i for i in mdl.idx.v if any(_same(i, j) for j in idxs)]


REFERRERS = [  # (referrer models, field, target group, backref holder kind)
    (('GENCLS', 'GENROU'), 'gen', 'StaticGen', 'SynGen'),
    (('TGOV1', 'IEEEG1'), 'syn', 'SynGen', 'TurbineGov'),
    (('EXDC2', 'IEEEX1', 'SEXS'), 'syn', 'SynGen', 'Exciter'),
    (('IEEEST',), 'avr', 'Exciter', 'PSS'),
]


def _backrefs(ss, reg, v, probes):
    for models, field, tgroup, refname in REFERRERS:
        targets = [rr for rr in reg.values() if rr['group'] == tgroup]
        for t in targets:
            tm = ss.models[t['model']]
            exp = [rr['idx'] for rr in reg.values() if rr['model'] in models and _same(rr['params'].get(field), t['idx'])]
            holder = None
            if refname in tm.services_ref:
                holder = tm.services_ref[refname]
                uid = tm.idx2uid(t['idx'])
            elif refname in ss.groups[tgroup].services_ref:
                holder = ss.groups[tgroup].services_ref[refname]
                uid = ss.groups[tgroup].idx2uid(t['idx'])
            if holder is None:
                continue
            got = list(holder.v[uid])
            probes['backref_checked'] = probes.get('backref_checked', 0) + 1
            if sorted(map(repr, got)) != sorted(map(repr, exp)):
                v.append(V('backref', '%s %r: back-reference list %s = %r, the devices pointing to it are %r' %
                           (t['model'], t['idx'], refname, got, exp), what='not_inverse', ref=refname))
                return


def _finders(ss, reg, v, probes):
    """IEEEST needs a BusFreq on the bus of its generator: found or created, at most one per bus, measuring that bus."""
    if not ss.IEEEST.n:
        return
    bf = ss.BusFreq
    buses = list(bf.bus.v)
    if len(buses) != len(set(map(repr, buses))):
        v.append(V('finder', 'auto-created BusFreq devices measure buses %r: more than one helper for the same bus' % buses, what='duplicate'))
        return
    probes['finder_created'] = bf.n
    for i in range(ss.IEEEST.n):
        want = ss.IEEEST.buss.v[i] if hasattr(ss.IEEEST, 'buss') else None
        used = ss.IEEEST.busfreq.v[i] if hasattr(ss.IEEEST, 'busfreq') else None
        if used is None or want is None:
            continue
        try:
            b = bf.get('bus', used, 'v')
        except Exception:
            v.append(V('finder', 'IEEEST %r is linked to helper %r which does not exist' % (ss.IEEEST.idx.v[i], used), what='missing'))
            return
        if not _same(b, want) and b != want:
            v.append(V('finder', 'IEEEST %r needs the frequency of bus %r but its helper %r measures bus %r' %
                       (ss.IEEEST.idx.v[i], want, used, b), what='wrong_target'))
            return
    if ss.IEEEST.n > bf.n:
        probes['finder_shared'] = 1


def simplify(plan):
    if plan.get('order') != 'natural':
        q = json.loads(json.dumps(plan))
        q['order'] = 'natural'
        yield q
