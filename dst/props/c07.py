"""
C07 -- simulated trajectories agree with an independent reference solution.

Engine: tds-sim.
  smib    a classical machine (GENCLS on a PV bus) against an infinite bus (Slack) through 2-3 parallel lossless lines is
          built through System.add from seeded M, D, xd', line reactances, loading, voltage and base frequency (stability is
          checked on the reference); 1-4 seeded Toggle events open / close lines (on grid, off grid, ulp neighbours, near
          each other).  Reference: the swing equation with piecewise reactance integrated by SciPy DOP853 (rtol 1e-11) between
          the switching instants from the power-flow-derived E'<delta0.  The real TDS runs at h and h/2 (both methods): the
          error against the reference must shrink (trapezoid <= 0.45x, backward Euler <= 0.92x, swings of at least 0.02 rad) and the error at h must be
          within three times the Richardson estimate formed from the two runs.
  linear  a stock case whose limiters are inside and that has no zero time constant is initialised, perturbed by eps*v (seeded
          unit direction), made consistent by a 1e-6 s segment, and simulated flat at h and h/2 (tol 1e-11, honest Newton);
          reference x* + expm(A t) d with A = T^-1 (fx - fy gy^-1 gx) assembled densely by numpy from the Jacobians (not by
          eig.py).  Same convergence demands; EIG.As must equal that A.
"""

import json
import math

import numpy as np

from dst import core, gen, tdssim
from dst.core import stream
from dst.seams import independent_tf
from dst.tdssim import V
from dst.world import build_system, catalogue

PROP = 'C07'
LEVEL = 'exploration'
COUNTS = {'quick': 220, 'thorough': 6000}
BUDGET = {'quick': 110, 'thorough': 1500}
TIMEOUT = 240
SHRINK_LISTS = [['events']]
EXPECTED_PROBES = ['inertia_altered_in_run', 'smib_compared', 'linear_compared', 'switching_events', 'backeuler', 'unstable_reference_skipped', 'order_ratio_measured']
RULE = ('plans of class smib (seeded machine/network/loading + line-switching schedule) and linear (stock case + seeded perturbation '
        'direction); non-trivial = the error against the reference was measured at two step sizes; distinct = (class, method, number of '
        'events / case, step size, frequency)')
ASSUMPTIONS = [
    'SciPy DOP853 at rtol 1e-11 / atol 1e-13 and scipy.linalg.expm are the independent references',
    'the swing reference uses E\' and delta0 computed from the converged power flow voltages by phasor algebra (not from GENCLS variables)',
    'ANDES stamps are compared in its own label time; from an exact equilibrium start the label lag of the first step is invisible',
]
LINEAR_CASES = ['kundur/kundur_full.xlsx', 'kundur/kundur_sexs.xlsx', 'wecc/wecc_gencls.xlsx', 'smib/SMIB.xlsx', 'kundur/kundur_exst1.xlsx',
                'kundur/kundur_coi.xlsx', '5bus/pjm5bus.json', 'kundur/kundur_ieeeg1.xlsx', 'kundur/kundur_esdc2a.xlsx']


def plans(seed, tier, count):
    out = [json.loads(json.dumps(p)) for p in REGRESSION]
    i = 0
    while len(out) < count:
        out.append({'stub': True, 'seed': core.H(seed, PROP, i), 'tier': tier})
        i += 1
    return out


def elaborate(stub):
    seed = stub['seed']
    r = stream(seed, 'class')
    if r.random() < 0.7:
        fn = r.choice([50, 60])
        nl = r.choice([2, 2, 3])
        xs = [round(r.uniform(0.2, 0.8), 3) for _ in range(nl)]
        p = {'property': PROP, 'cls': 'smib', 'seed': seed, 'fn': fn, 'M': round(r.uniform(4, 12), 2), 'D': r.choice([0.0, 0.0, 1.0, 2.0, 4.0]),
             'xd1': round(r.uniform(0.15, 0.4), 3), 'x_lines': xs, 'p0': round(r.uniform(0.3, 0.9), 3), 'v0': round(r.uniform(0.98, 1.04), 3),
             'method': r.choice(['trapezoid', 'trapezoid', 'backeuler']), 'tstep': r.choice([1 / 30, 1 / 60, 0.02]), 'tf': r.choice([1.5, 2.0, 3.0])}
        evs = []
        t = 0.2
        state = [1] * nl
        for j in range(r.randint(1, 4)):
            cls = r.choice(['grid', 'offgrid', 'ulp', 'near'])
            if cls == 'grid':
                t = (int(t / p['tstep']) + r.randint(2, 12)) * p['tstep']
            elif cls == 'offgrid':
                t = round(t + r.uniform(0.05, 0.4), r.choice([3, 6]))
            elif cls == 'ulp':
                t = math.nextafter((int(t / p['tstep']) + r.randint(2, 12)) * p['tstep'], math.inf)
            else:
                t = t + r.choice([2e-4, 5e-4, 1e-3])
            if t >= p['tf'] - 0.2:
                break
            if r.random() < 0.3:
                # the inertia constant is changed during the run by a timed Alter device: from then on the new value governs
                evs.append({'M': round(p['M'] * r.choice([0.5, 0.7, 1.5, 2.0]), 2), 't': float(t)})
                continue
            on = [k for k in range(nl) if state[k]]
            off = [k for k in range(nl) if not state[k]]
            if off and (len(on) <= 1 or r.random() < 0.5):
                k = r.choice(off)
            else:
                k = r.choice(on)
            state[k] = 1 - state[k]
            evs.append({'line': k, 't': float(t)})
        p['events'] = evs
        return p
    case = r.choice(LINEAR_CASES)
    return {'property': PROP, 'cls': 'linear', 'seed': seed, 'case': case, 'eps': r.choice([1e-5, 1e-4]),
            'method': r.choice(['trapezoid', 'trapezoid', 'backeuler']), 'tstep': r.choice([1 / 30, 1 / 60]), 'tf': r.choice([0.5, 1.0])}


# --------------------------------------------------------------------------------------------
# single machine - infinite bus
# --------------------------------------------------------------------------------------------

def build_smib(p, tstep):
    import andes
    ss = andes.System(default_config=True, no_output=True, autogen_stale=False,
                      config_option=['TDS.tstep=%r' % tstep, 'TDS.method=%s' % p['method'], 'TDS.tol=1e-10', 'PFlow.tol=1e-12',
                                     'System.freq=%d' % p['fn'], 'TDS.no_tqdm=1', 'TDS.criteria=0'])
    ss.add('Bus', {'idx': 1, 'Vn': 20.0, 'name': 'GEN'})
    ss.add('Bus', {'idx': 2, 'Vn': 20.0, 'name': 'INF'})
    for k, x in enumerate(p['x_lines']):
        ss.add('Line', {'idx': 'L%d' % k, 'bus1': 1, 'bus2': 2, 'r': 0.0, 'x': x, 'b': 0.0, 'Vn1': 20.0, 'Vn2': 20.0, 'fn': p['fn']})
    ss.add('PV', {'idx': 'G1', 'bus': 1, 'p0': p['p0'], 'v0': p['v0'], 'Vn': 20.0, 'Sn': 100.0, 'qmax': 99, 'qmin': -99})
    ss.add('Slack', {'idx': 'G2', 'bus': 2, 'v0': 1.0, 'a0': 0.0, 'Vn': 20.0, 'Sn': 100.0, 'p0': 0.0, 'qmax': 99, 'qmin': -99,
                     'pmax': 99, 'pmin': -99})
    ss.add('GENCLS', {'idx': 'M1', 'bus': 1, 'gen': 'G1', 'M': p['M'], 'D': p['D'], 'xd1': p['xd1'], 'ra': 0.0, 'Sn': 100.0, 'Vn': 20.0,
                      'fn': p['fn']})
    ss.add('GENCLS', {'idx': 'M2', 'bus': 2, 'gen': 'G2', 'M': 1e7, 'D': 0.0, 'xd1': 1e-6, 'ra': 0.0, 'Sn': 100.0, 'Vn': 20.0, 'fn': p['fn']})
    for j, e in enumerate(p['events']):
        if 'M' in e:
            ss.add('Alter', {'idx': 'A%d' % j, 'model': 'GENCLS', 'dev': 'M1', 'src': 'M', 'attr': 'v', 'method': '=', 'amount': e['M'],
                             't': e['t']})
        else:
            ss.add('Toggle', {'idx': 'T%d' % j, 'model': 'Line', 'dev': 'L%d' % e['line'], 't': e['t']})
    ss.setup()
    return ss


def swing_reference(p, V1, th1, t_eval):
    """Integrate the swing equation between switching instants; returns delta(t), omega(t) at t_eval (label time)."""
    from scipy.integrate import solve_ivp
    w0 = 2 * math.pi * p['fn']
    status = [1] * len(p['x_lines'])

    def xeq():
        y = sum(1.0 / x for x, s in zip(p['x_lines'], status) if s)
        return (1.0 / y) if y > 0 else float('inf')
    # internal voltage behind xd' from the power-flow terminal quantities (infinite bus: 1 < 0)
    Vt = V1 * np.exp(1j * th1)
    I = (Vt - 1.0) / (1j * xeq())
    E = Vt + 1j * p['xd1'] * I
    Eabs, d0 = abs(E), float(np.angle(E))
    Pm = (Eabs * 1.0 / (p['xd1'] + xeq())) * math.sin(d0)

    inertia = {'M': p['M']}

    def rhs(t, z, X):
        d, w = z
        Pe = 0.0 if not np.isfinite(X) else Eabs / (p['xd1'] + X) * math.sin(d)
        return [w0 * (w - 1.0), (Pm - Pe - p['D'] * (w - 1.0)) / inertia['M']]
    evs = sorted(p['events'], key=lambda e: e['t'])
    bounds = [0.0] + [e['t'] for e in evs] + [max(t_eval) + 1e-9]
    z = np.array([d0, 1.0])
    out_d = np.zeros(len(t_eval))
    out_w = np.zeros(len(t_eval))
    done = np.zeros(len(t_eval), bool)
    for k in range(len(bounds) - 1):
        a, b = bounds[k], bounds[k + 1]
        X = xeq()
        sel = np.where((t_eval >= a) & (t_eval <= b) & ~done)[0]
        if b > a:
            sol = solve_ivp(rhs, (a, b), z, method='DOP853', rtol=1e-11, atol=1e-13, args=(X,), dense_output=True)
            if len(sel):
                zz = sol.sol(t_eval[sel])
                out_d[sel], out_w[sel] = zz[0], zz[1]
                done[sel] = True
            z = sol.y[:, -1]
        if k < len(evs):
            if 'M' in evs[k]:
                inertia['M'] = evs[k]['M']
            else:
                status[evs[k]['line']] = 1 - status[evs[k]['line']]
    return out_d, out_w, dict(Eabs=Eabs, d0=d0, Pm=Pm)


def run_smib(p):
    v, probes = [], {}
    res = []
    for div in (1, 2):
        h = p['tstep'] / div
        ss = build_smib(p, h)
        if not ss.PFlow.run():
            return v, {'pf_failed': 1}, ['smib', 'pf-failed']
        V1, th1 = float(ss.Bus.v.v[0]), float(ss.Bus.a.v[0]) - float(ss.Bus.a.v[1])
        ss.TDS.config.tf = p['tf']
        ok = ss.TDS.run()
        t = np.array(ss.dae.ts.t)
        xd = ss.dae.ts.x[:, ss.GENCLS.delta.a[0]] - ss.dae.ts.x[:, ss.GENCLS.delta.a[1]]
        xw = ss.dae.ts.x[:, ss.GENCLS.omega.a[0]]
        dref, wref, info = swing_reference(p, V1, th1, t)
        if np.max(np.abs(dref)) > 2.6 or not np.all(np.isfinite(dref)):
            probes['unstable_reference_skipped'] = 1
            return v, probes, ['smib', 'unstable']
        if not ok:
            v.append(V('smib', 'the reference swing stays bounded (max |delta| %.2f rad) but TDS.run() returned False at t=%.4f (h=%.4g, %s)' %
                       (float(np.max(np.abs(dref))), float(ss.dae.t), h, p['method']), what='run_false', method=p['method']))
            return v, probes, ['smib', 'run-false']
        # delta relative to the infinite-bus machine; the reference angle is relative to the infinite bus voltage (angle 0)
        off = (xd[0] - dref[0])
        err = float(np.max(np.abs((xd - off) - dref)))
        res.append({'h': h, 'err': err, 't': t, 'd': xd - off, 'w': xw, 'werr': float(np.max(np.abs(xw - wref))), 'amp': float(np.ptp(dref))})
        if abs(off) > 1e-6:
            v.append(V('smib', 'initial rotor angle differs from the power-flow-derived E\' angle by %.3g rad' % off, what='initial_angle'))
            return v, probes, ['smib', 'init']
    probes['smib_compared'] = 1
    probes['switching_events'] = len(p['events'])
    probes['inertia_altered_in_run'] = sum(1 for e in p['events'] if 'M' in e)
    probes['backeuler'] = int(p['method'] == 'backeuler')
    e1, e2 = res[0]['err'], res[1]['err']
    amp = res[0]['amp']
    # backward Euler damps swings strongly and is pre-asymptotic at these steps (measured ratios 0.6 .. 0.93 on the unchanged tree,
    # 0.925 with two inertia changes in the run): it must not get worse on halving; the Richardson bound below is the sharp part
    factor = 0.45 if p['method'] == 'trapezoid' else 1.0
    if p['method'] == 'trapezoid' and amp > 0.6:
        factor = 0.62                                         # large swings near the stability limit converge more slowly at these steps
    saturated = p['method'] == 'backeuler' and e1 > 0.3 * amp     # numerical damping has already removed the swing at both steps
    if e1 > 1e-6 and amp >= 0.02 and not saturated:
        probes['order_ratio_measured'] = 1
        if e2 > factor * e1 + 1e-7:
            v.append(V('smib', 'error against the swing-equation reference does not shrink with the step: %.3g rad at h=%.4g, %.3g rad at h/2 (%s, '
                       'swing amplitude %.3g rad, %d events)' % (e1, res[0]['h'], e2, p['method'], amp, len(p['events'])),
                       what='no_convergence', method=p['method']))
    # Richardson bound at the plan's step: common stamps of the two runs
    ta, tb = res[0]['t'], res[1]['t']
    if len(ta) > 3 and len(tb) > 3:
        # the finer run interpolated at the stamps of the coarser one (floating-point grids rarely coincide)
        dd = float(np.max(np.abs(res[0]['d'] - np.interp(ta, tb, res[1]['d']))))
        k = (4 / 3) if p['method'] == 'trapezoid' else 2.0
        bound = 3.0 * k * dd + 1e-5
        if e1 > bound:
            v.append(V('smib', 'error %.3g rad at h=%.4g exceeds three times the Richardson estimate %.3g (%s)' % (e1, res[0]['h'], k * dd, p['method']),
                       what='beyond_discretisation_bound', method=p['method']))
    return v, probes, ['smib', p['method'], len(p['events']), round(p['tstep'], 4), p['fn']]


# --------------------------------------------------------------------------------------------
# small-signal response of a stock case
# --------------------------------------------------------------------------------------------

def dense(sp):
    from kvxopt import matrix
    return np.array(matrix(sp))


def run_linear(p):
    from scipy.linalg import expm
    v, probes = [], {}
    errs = []
    A = None
    for div in (1, 2):
        h = p['tstep'] / div
        ss = build_system(p['case'], knobs={'TDS.no_tqdm': 1, 'TDS.tol': 1e-11, 'TDS.honest': 1, 'TDS.method': p['method'], 'TDS.tstep': 1e-6,
                                            'PFlow.tol': 1e-12},
                          extra={'flat': True})
        if not ss.PFlow.run():
            return v, probes, ['linear', 'pf-failed']
        ss.TDS.init()
        if ss.TDS.test_ok is not True or np.any(ss.dae.Tf == 0):
            return v, {'precondition_unmet': 1}, ['linear', 'precondition']
        from dst.props.c05 import limiters_inside
        if not limiters_inside(ss):
            return v, {'precondition_unmet': 1}, ['linear', 'limiters']
        xs, ys = ss.dae.x.copy(), ss.dae.y.copy()
        if A is None:
            ss.j_update(ss.exist.pflow_tds)
            fx, fy, gx, gy = dense(ss.dae.fx), dense(ss.dae.fy), dense(ss.dae.gx), dense(ss.dae.gy)
            T = independent_tf(ss)
            A = (fx - fy @ np.linalg.solve(gy, gx)) / T[:, None]
            if np.max(np.linalg.eigvals(A).real) > 0.5:
                return v, {'unstable_reference_skipped': 1}, ['linear', 'unstable']
        r = stream(p['seed'], 'direction')
        d = np.array([r.gauss(0, 1) for _ in range(ss.dae.n)])
        d /= np.linalg.norm(d)
        ss.dae.x[:] = xs + p['eps'] * d
        ss.vars_to_models()
        # consistency segment: algebraic variables and the stored right-hand side follow the perturbed state
        ss.TDS.config.tf = 1e-6
        if not ss.TDS.run():
            return v, probes, ['linear', 'segment-failed']
        t0 = float(ss.dae.t)
        d0 = ss.dae.x - xs
        ss.TDS.config.tstep = h
        ss.TDS.config.tf = p['tf']
        if not ss.TDS.run():
            v.append(V('linear', 'flat run from a %.0e perturbation of %s returned False' % (p['eps'], p['case']), what='run_false'))
            return v, probes, ['linear', 'run-false']
        t = np.array(ss.dae.ts.t)
        X = np.array(ss.dae.ts.x)
        k0 = int(np.where(t >= t0 - 1e-15)[0][0])
        # reference 1: the matrix exponential (exact linear response); reference 2: the integration rule itself applied to the
        # linearisation on the time stamps actually produced -- x+ = (I - hA)^-1 x (backward Euler), (I - hA/2)^-1 (I + hA/2) x (trapezoid).
        # The run must follow reference 2 up to second-order terms; its distance to reference 1 is then the rule's own discretisation
        # error (numerical damping of backward Euler, ringing of stiff modes under the trapezoidal rule included).
        eye = np.eye(len(A))
        xd = d0.copy()
        err = e_lin = e_th = resp = 0.0
        worst = None
        hs = np.diff(t[k0:])
        for k in range(k0, len(t) - 1):
            hk = t[k + 1] - t[k]
            if p['method'] == 'backeuler':
                xd = np.linalg.solve(eye - hk * A, xd)
            else:
                xd = np.linalg.solve(eye - hk / 2 * A, (eye + hk / 2 * A) @ xd)
            ex = expm(A * (t[k + 1] - t0)) @ d0 if (k - k0) % max(1, (len(t) - k0) // 12) == 0 or k == len(t) - 2 else None
            dev = np.abs(X[k + 1] - xs - xd)
            j = int(np.argmax(dev))
            if dev[j] > e_lin:
                e_lin, worst = float(dev[j]), (ss.dae.x_name[j], float(t[k + 1]))
            if ex is not None:
                err = max(err, float(np.max(np.abs(X[k + 1] - xs - ex))))
                e_th = max(e_th, float(np.max(np.abs(xd - ex))))
                resp = max(resp, float(np.max(np.abs(ex))))
        errs.append({'h': h, 'err': err, 'resp': resp, 'e_lin': e_lin, 'e_th': e_th, 'worst': worst,
                     'h_max': float(hs.max()) if len(hs) else 0.0, 'n_steps': int(len(hs)), 'span': float(t[-1] - t0)})
    probes['linear_compared'] = 1
    probes['backeuler'] = int(p['method'] == 'backeuler')
    e1, e2 = errs[0]['err'], errs[1]['err']
    resp = errs[0]['resp']
    floor = 2 * resp ** 2 + 50 * p['eps'] ** 2 + 1e-10      # second-order terms of the real (nonlinear) system scale with the response
    for e in errs:
        # (a) the run is the integration rule applied to the linearisation, up to second-order terms
        if e['e_lin'] > 5 * floor:
            v.append(V('linear', '%s: at h=%.4g the run deviates by %.3g (at %s) from the %s rule applied to its own linearisation on the '
                       'same time stamps (response %.3g, allowed %.3g)' % (p['case'], e['h'], e['e_lin'], e['worst'], p['method'], resp, 5 * floor),
                       what='deviates_from_discrete_linear', method=p['method']))
            break
        # (b) the steps taken are the steps requested (fixed step): none larger, and as many as the interval holds
        if e['h_max'] > e['h'] * (1 + 1e-9) or e['n_steps'] < int(e['span'] / e['h']) - 1:
            v.append(V('linear', '%s: requested fixed step %.6g, largest step taken %.6g, %d steps over %.3g s' %
                       (p['case'], e['h'], e['h_max'], e['n_steps'], e['span']), what='requested_step_not_used', method=p['method']))
            break
    # (c) convergence: the distance to the exact linear response is the rule's own discretisation error, which must shrink with the step
    if not v:
        probes['order_ratio_measured'] = int(e1 > 20 * floor)
        if abs(e1 - errs[0]['e_th']) > 0.1 * errs[0]['e_th'] + 10 * floor or abs(e2 - errs[1]['e_th']) > 0.1 * errs[1]['e_th'] + 10 * floor:
            v.append(V('linear', '%s: deviation from expm(A t) d is %.3g / %.3g at h / h/2, the rule\'s own discretisation error on the '
                       'linearisation is %.3g / %.3g (%s)' % (p['case'], e1, e2, errs[0]['e_th'], errs[1]['e_th'], p['method']),
                       what='not_the_discretisation_error', method=p['method']))
        elif e1 > 20 * floor and e2 > e1 + 10 * floor:
            v.append(V('linear', '%s: deviation from expm(A t) d grows when the step is halved: %.3g at h=%.4g, %.3g at h/2 (%s)' %
                       (p['case'], e1, errs[0]['h'], e2, p['method']), what='no_convergence', method=p['method']))
    return v, probes, ['linear', p['case'], p['method'], round(p['tstep'], 4)]


def execute(plan):
    if plan.get('stub'):
        plan = elaborate(plan)
    res = {'plan': plan}
    if plan['cls'] == 'smib':
        v, probes, sig = run_smib(plan)
    else:
        v, probes, sig = run_linear(plan)
    res['violations'] = v
    res['probes'] = probes
    res['precondition_unmet'] = int(bool(probes.get('precondition_unmet')))
    res['faults'] = {'line_switching_events': probes.get('switching_events', 0)} if probes.get('switching_events') else {}
    res['sig'] = json.dumps(sig, default=str)
    res['nontrivial'] = bool(probes.get('smib_compared') or probes.get('linear_compared'))
    res['sim_seconds'] = 2 * plan['tf']
    res['steps'] = int(3 * plan['tf'] / plan['tstep'])
    d = core.Digest()
    d.add(res['sig'], sorted(core.vclass(x) for x in v), sorted(probes.items()))
    res['digest'] = d.hex()
    return res


def simplify(plan):
    if plan.get('cls') == 'smib' and plan.get('D'):
        q = json.loads(json.dumps(plan))
        q['D'] = 0.0
        yield q


REGRESSION = [
    {'property': PROP, 'cls': 'smib', 'seed': 43, 'fn': 60, 'M': 6.0, 'D': 1.0, 'xd1': 0.3, 'x_lines': [0.4, 0.4], 'p0': 0.8, 'v0': 1.0,
     'method': 'trapezoid', 'tstep': 1 / 30, 'tf': 2.0, 'events': [{'line': 1, 't': 0.3}, {'M': 12.0, 't': 0.6}, {'line': 1, 't': 1.0}]},
    {'property': PROP, 'cls': 'smib', 'seed': 41, 'fn': 60, 'M': 6.0, 'D': 0.0, 'xd1': 0.3, 'x_lines': [0.4, 0.4], 'p0': 0.8, 'v0': 1.0,
     'method': 'trapezoid', 'tstep': 1 / 30, 'tf': 2.0, 'events': [{'line': 1, 't': 0.5}, {'line': 1, 't': 0.7}]},
    {'property': PROP, 'cls': 'smib', 'seed': 42, 'fn': 50, 'M': 8.0, 'D': 2.0, 'xd1': 0.25, 'x_lines': [0.5, 0.3, 0.6], 'p0': 0.6, 'v0': 1.02,
     'method': 'backeuler', 'tstep': 1 / 60, 'tf': 2.0, 'events': [{'line': 0, 't': 0.4}]},
    {'property': PROP, 'cls': 'linear', 'seed': 43, 'case': 'kundur/kundur_full.xlsx', 'eps': 1e-5, 'method': 'trapezoid', 'tstep': 1 / 30,
     'tf': 1.0},
]
