"""
C09 -- limiters and other discrete components enforce their documented semantics.

Engines: tds-sim (in-simulation monitors) + component-sim (stand-alone histories).
  sim    seeded runs that drive limiters (stock disturbances + seeded bus faults near machines + load steps), with
         solver-forced step rejections so that history components see real rewinds.  Monitors at every step:
         anti-windup states inside [lower, upper] (+ Newton tolerance), held state => stored derivative 0, every
         limiter's flags one-hot and (away from the boundary) equal to the comparison of its input with its limits,
         limited block outputs inside their limits; every Delay/Average/Derivative/Sampling instance of the system is
         shadowed call by call by its textbook reference model (same (time, input) sequence incl. repeats and rewinds).
  comp   stand-alone components driven by seeded call sequences in which time repeats, advances irregularly,
         rewinds and restarts at 0; limits include equality, sign-flipped limits, one-sided limiters; flag algebra
         enumerated over all orderings of (u, lower, upper) on a small grid.
"""

import itertools
import json

import numpy as np

from dst import core, gen, tdssim
from dst.core import stream
from dst.refmodels import history as H
from dst.tdssim import V

PROP = 'C09'
LEVEL = 'exploration'
COUNTS = {'quick': 420, 'thorough': 12000}
BUDGET = {'quick': 110, 'thorough': 1500}
TIMEOUT = 240
SHRINK_LISTS = [['events'], ['faults'], ['calls']]
EXPECTED_PROBES = ['limiter_bound', 'limiter_released', 'rewind_seen', 'delay_interpolated', 'history_calls', 'flags_checked',
                   'antiwindup_checked', 'equal_limits', 'sign_flipped']
RULE = ('plans of class sim (stock case + limiter-driving disturbances + forced rejections) and comp (component, seeded call sequence); '
        'non-trivial = a limiter was at a bound / a history component saw a repeat or rewind / a flag ordering was enumerated; distinct = '
        '(class, case or component, which limiter kinds bound, rewind seen, op pattern)')
ASSUMPTIONS = [
    'tolerance for clamp checks: 50*TDS.tol*(1+|limit|) + 1e-6; flag/comparison consistency is skipped within 20*tol of a limit '
    '(flags are evaluated one Newton iteration before the stored value)',
    'reference for history components: distinct-stamp history with overwrite on repeat and replace-last on rewind (dst/refmodels/history.py)',
    'Sampling is checked with offset 0 only (the shipped models use offset 0)',
]
LIMITER_CASES = ['kundur/kundur_aw.xlsx', 'ieee14/ieee14_esst3a.xlsx', 'ieee14/ieee14_exac1.xlsx', 'ieee14/ieee14_esdc1a.xlsx',
                 'ieee14/ieee14_wt3.xlsx', 'ieee14/ieee14_regcp1.xlsx', 'kundur/kundur_esdc2a.xlsx', 'kundur/kundur_exst1.xlsx',
                 'ieee14/ieee14_esst4b.xlsx', 'ieee14/ieee14_esac1a.xlsx', 'ieee14/ieee14_ac8b.xlsx', 'ieee14/ieee14_hygov.xlsx',
                 'kundur/kundur_st2cut.xlsx', 'kundur/kundur_ieeest.xlsx', 'ieee14/ieee14_ace.xlsx', 'ieee14/ieee14_esst1a.xlsx',
                 'ieee14/ieee14_gast.xlsx', 'kundur/kundur_wtdta1.xlsx', 'ieee14/ieee14_solar.xlsx', 'ieee14/ieee14_pvd1.xlsx']
COMPONENTS = ['Limiter', 'HardLimiter', 'DeadBand', 'DeadBandRT', 'SortedLimiter', 'AntiWindup', 'RateLimiter', 'Switcher',
              'DelayStep', 'DelayTime', 'AverageStep', 'Derivative', 'Sampling', 'LessThan']


def plans(seed, tier, count):
    out = []
    # exhaustive flag algebra: all orderings of (u, lower, upper) on a 4-point grid, every option combination
    out.append({'property': PROP, 'cls': 'comp', 'component': 'FlagEnum', 'seed': core.H('enum09')})
    for comp in COMPONENTS:
        out.append({'stub': True, 'seed': core.H('fix09', comp), 'tier': tier, 'force_component': comp})
    i = 0
    while len(out) < count:
        out.append({'stub': True, 'seed': core.H(seed, PROP, i), 'tier': tier})
        i += 1
    return out


def elaborate(stub):
    seed = stub['seed']
    r = stream(seed, 'class')
    if stub.get('force_component') or r.random() < 0.45:
        comp = stub.get('force_component') or r.choice(COMPONENTS)
        n = r.randint(1, 4)
        calls = []
        t = 0.0
        for k in range(r.randint(3, 40)):
            x = r.random()
            if k == 0:
                t = 0.0
            elif x < 0.25:
                pass                                   # repeated stamp (another Newton iteration)
            elif x < 0.85:
                t = t + r.choice([1 / 30, 0.01, 1e-4, 0.05, r.uniform(0.001, 0.3)])
            else:
                t = max(t - r.choice([1e-4, 0.01, 0.003]) * r.random(), 1e-6) if t > 0 else t      # rewind (rejected step)
            calls.append({'t': t, 'u': [round(r.uniform(-2, 2), r.choice([0, 1, 3])) for _ in range(n)],
                          'e': [round(r.uniform(-1, 1), 1) for _ in range(n)]})
        opts = {'delay': r.choice([1, 2, 3, 5]), 'tau': r.choice([0.05, 0.1, 0.33]), 'interval': r.choice([0.1, 0.5, 1.0]),
                'equal': r.random() < 0.6, 'no_lower': r.random() < 0.15, 'no_upper': r.random() < 0.15,
                'sign_lower': r.choice([1, 1, 1, -1]), 'sign_upper': r.choice([1, 1, 1, -1]),
                'lower': [round(r.uniform(-2, 1), r.choice([0, 1])) for _ in range(n)],
                'width': [r.choice([0.0, 0.5, 1.0, 2.0]) for _ in range(n)], 'n_select': r.choice([0, 1, 2, 99])}
        return {'property': PROP, 'cls': 'comp', 'seed': seed, 'component': comp, 'n': n, 'calls': calls, 'opts': opts}
    rng = stream(seed, 'case')
    case = rng.choice(LIMITER_CASES) if rng.random() < 0.8 else gen.pick_case(rng, include_big=False)['case']
    k = stream(seed, 'knobs')
    knobs = {'TDS.tstep': k.choice([1 / 30, 1 / 60, 0.02])}
    if k.random() < 0.3:
        knobs['TDS.method'] = 'backeuler'
    if k.random() < 0.2:
        knobs['TDS.fixt'] = 0
    if k.random() < 0.3:
        knobs['TDS.tol'] = k.choice([1e-5, 1e-6])
    plan = {'property': PROP, 'cls': 'sim', 'seed': seed, 'case': case, 'knobs': knobs, 'channels': {}, 'disable_stock_events': False,
            'events': [], 'faults': [], 'tf': k.choice([1.6, 2.2, 3.0]), '_need_devices': True}
    fr = stream(seed, 'faults.solver')
    nsteps = int(plan['tf'] / knobs['TDS.tstep'])
    for _ in range(fr.choice([0, 1, 2, 3])):
        plan['faults'].append({'seam': 'solver', 'kind': 'reject', 'at_attempt': fr.randint(2, nsteps)})
    return plan


def _finish(plan, probe):
    r = stream(plan['seed'], 'events')
    evs = []
    buses = list(probe.Bus.idx.v)
    gens = []
    for name in ('GENROU', 'GENCLS'):
        m = probe.models[name]
        gens += [b for b in m.bus.v]
    for j in range(r.choice([0, 1, 1, 2])):
        bus = r.choice(gens) if gens and r.random() < 0.7 else r.choice(buses)
        bus = bus.item() if hasattr(bus, 'item') else bus
        t = round(r.uniform(0.2, plan['tf'] - 0.5), 3)
        evs.append({'model': 'Fault', 'params': {'bus': bus, 'tf': t, 'tc': t + r.choice([0.05, 0.1, 0.2, 0.3]),
                                                 'xf': r.choice([0.01, 0.05, 0.1]), 'idx': 'C09F%d' % j}})
    if probe.PQ.n and r.random() < 0.4:
        dev = r.choice(list(probe.PQ.idx.v))
        dev = dev.item() if hasattr(dev, 'item') else dev
        evs.append({'model': 'Toggle', 'params': {'model': 'PQ', 'dev': dev, 't': round(r.uniform(0.2, plan['tf'] - 0.3), 3), 'idx': 'C09T'}})
    plan['events'] = evs
    plan.pop('_need_devices', None)
    return plan


# --------------------------------------------------------------------------------------------
# in-simulation monitors
# --------------------------------------------------------------------------------------------

class HistoryShadow:
    """Wrap check_var of every Delay/Average/Derivative/Sampling of the system and shadow it with the reference model."""

    def __init__(self, ss, viol, probes):
        from andes.core.discrete import Average, Delay, Derivative, Sampling
        self.items = []
        for mdl in ss.exist.pflow_tds.values():
            if not mdl.n:
                continue
            for name, d in mdl.discrete.items():
                ref = None
                if isinstance(d, Derivative):
                    ref = H.Derivative()
                elif isinstance(d, Average):
                    ref = H.AverageStep(d.delay) if d.mode == 'step' else None
                elif isinstance(d, Delay):
                    ref = H.DelayStep(d.delay) if d.mode == 'step' else H.DelayTime(d.delay)
                if ref is None:
                    continue
                self._wrap(mdl, name, d, ref, viol, probes)

    def _wrap(self, mdl, name, d, ref, viol, probes):
        orig = d.check_var
        state = {'bad': False}

        def check_var(dae_t, *a, **kw):
            r = orig(dae_t, *a, **kw)
            t = float(dae_t)
            exp = ref.feed(t, d.u.v)
            probes['history_calls'] = probes.get('history_calls', 0) + 1
            if ref.h.rewound:
                probes['rewind_seen'] = probes.get('rewind_seen', 0) + 1
            if isinstance(ref, H.DelayTime) and t - ref.tau > ref.h.t[0]:
                probes['delay_interpolated'] = probes.get('delay_interpolated', 0) + 1
            if not state['bad'] and not np.allclose(d.v, exp, rtol=1e-9, atol=1e-12):
                state['bad'] = True
                viol.append(V('history_component', '%s.%s (%s) returned %s at t=%r, its definition gives %s (history of %d stamps, rewind=%s)' %
                              (mdl.class_name, name, type(d).__name__, np.array(d.v)[:3], t, np.array(exp)[:3], len(ref.h.t), ref.h.rewound),
                              component=type(d).__name__, rewind=bool(ref.h.rewound)))
            return r
        d.check_var = check_var
        self.items.append((d, orig))


def limiter_monitor(ss, viol, probes, tol, after_event=False):
    """One-hot flags, comparison consistency (away from the boundary), anti-windup clamp, limited block outputs."""
    from andes.core.discrete import AntiWindup, DeadBand, Limiter, RateLimiter, SortedLimiter
    tau = lambda lim: 50 * tol * (1 + np.abs(lim)) + 1e-6   # noqa
    for mdl in ss.exist.pflow_tds.values():
        if not mdl.n:
            continue
        for name, d in mdl.discrete.items():
            if isinstance(d, RateLimiter) and d.enable and not after_event:
                # rate limits act on the value of the differential equation: after the limiter has been applied the value
                # lies inside [rate_lower, rate_upper] wherever that side is enabled
                e = np.asarray(d.u.e, float)
                if e.shape == (mdl.n,):
                    probes['rate_limit_checked'] = probes.get('rate_limit_checked', 0) + 1
                    for side, no, lim, cond in (('upper', d.rate_no_upper, d.rate_upper, d.rate_upper_cond),
                                                ('lower', d.rate_no_lower, d.rate_lower, d.rate_lower_cond)):
                        if no:
                            continue
                        lv = np.broadcast_to(np.asarray(lim.v, float), (mdl.n,))
                        cv = np.broadcast_to(np.asarray(cond.v, float), (mdl.n,)) if cond is not None else np.ones(mdl.n)
                        bad = (cv != 0) & ((e > lv + 1e-9) if side == 'upper' else (e < lv - 1e-9))
                        if np.any(cv != 0) and np.any(np.isclose(e, lv) & (cv != 0)):
                            probes['rate_limit_bound'] = probes.get('rate_limit_bound', 0) + 1
                        if np.any(bad):
                            j = int(np.where(bad)[0][0])
                            viol.append(V('rate_clamp', '%s.%s: the limited rate of device %d is %g, %s rate limit %g at t=%.5f' %
                                          (mdl.class_name, name, j, e[j], side, lv[j], float(ss.dae.t)), side=side, kind=type(d).__name__))
                            return
            if not isinstance(d, Limiter) or not d.enable:
                continue
            if isinstance(d, DeadBand) and not d.enable:
                continue
            zi, zl, zu = np.asarray(d.zi, float), np.asarray(d.zl, float), np.asarray(d.zu, float)
            if zi.shape != (mdl.n,):
                continue
            probes['flags_checked'] = probes.get('flags_checked', 0) + 1
            s = zi + (zl if not d.no_lower else 0) + (zu if not d.no_upper else 0)
            if not np.all(s == 1):
                j = int(np.where(s != 1)[0][0])
                viol.append(V('flags_one_hot', '%s.%s flags (zi,zl,zu)=(%g,%g,%g) at t=%.5f for device %d' %
                              (mdl.class_name, name, zi[j], zl[j], zu[j], float(ss.dae.t), j), kind=type(d).__name__))
                return
            lo = -np.asarray(d.lower.v, float) if d.sign_lower.v == -1 else np.asarray(d.lower.v, float)
            up = -np.asarray(d.upper.v, float) if d.sign_upper.v == -1 else np.asarray(d.upper.v, float)
            lo = np.broadcast_to(lo, (mdl.n,))
            up = np.broadcast_to(up, (mdl.n,))
            u = np.asarray(d.u.v, float)
            if isinstance(d, AntiWindup):
                probes['antiwindup_checked'] = probes.get('antiwindup_checked', 0) + 1
                x = np.asarray(d.state.v, float)
                if not d.no_upper:
                    # right after a dispatched event (a fault clearance writes stored pre-fault values into the algebraic vector, a
                    # variable limit among them) state and limit belong to different instants until the next solve: not judged
                    bad = (x > up + tau(up)) & (not after_event)
                    if np.any(bad):
                        j = int(np.where(bad)[0][0])
                        inward = bool(np.asarray(d.state.e, float)[j] < 0)
                        viol.append(V('clamp', '%s.%s: anti-windup state %g exceeds its upper limit %g at t=%.5f (derivative %g)' %
                                      (mdl.class_name, name, x[j], up[j], float(ss.dae.t), np.asarray(d.state.e, float)[j]),
                                      side='upper', kind='AntiWindup', what='overshoot_inward_derivative' if inward else 'not_pegged'))
                        return
                    if not after_event and np.any((zu == 1) & (u < up - tau(up))):
                        viol.append(V('flags_consistent', '%s.%s: zu set although the input is below the upper limit' %
                                      (mdl.class_name, name), kind='AntiWindup'))
                        return
                if not d.no_lower:
                    bad = (x < lo - tau(lo)) & (not after_event)
                    if np.any(bad):
                        j = int(np.where(bad)[0][0])
                        inward = bool(np.asarray(d.state.e, float)[j] > 0)
                        viol.append(V('clamp', '%s.%s: anti-windup state %g is below its lower limit %g at t=%.5f (derivative %g)' %
                                      (mdl.class_name, name, x[j], lo[j], float(ss.dae.t), np.asarray(d.state.e, float)[j]),
                                      side='lower', kind='AntiWindup', what='overshoot_inward_derivative' if inward else 'not_pegged'))
                        return
                    if not after_event and np.any((zl == 1) & (u > lo + tau(lo))):
                        viol.append(V('flags_consistent', '%s.%s: zl set although the input is above the lower limit' %
                                      (mdl.class_name, name), kind='AntiWindup'))
                        return
                if np.any(zi == 0):
                    probes['limiter_bound'] = probes.get('limiter_bound', 0) + 1
            elif not isinstance(d, SortedLimiter):
                band = 20 * tol * (1 + np.abs(u))
                ezi, ezl, ezu = H.limiter_flags(u, lo, up, equal=d.equal, no_lower=d.no_lower, no_upper=d.no_upper)
                near = np.zeros(mdl.n, bool)
                if not d.no_lower:
                    near |= np.abs(u - lo) <= band
                if not d.no_upper:
                    near |= np.abs(u - up) <= band
                # flags of components gated by iteration count (min_iter) may lag by design: only flag gross disagreement
                dis = (~near) & ((zl != ezl) | (zu != ezu))
                if np.any(dis) and not after_event and type(d).__name__ in ('HardLimiter', 'DeadBand', 'DeadBandRT'):
                    j = int(np.where(dis)[0][0])
                    viol.append(V('flags_consistent', '%s.%s: flags (zl,zu)=(%g,%g) but input %g with limits [%g, %g] at t=%.5f' %
                                  (mdl.class_name, name, zl[j], zu[j], u[j], lo[j], up[j], float(ss.dae.t)), kind=type(d).__name__))
                    return
                if np.any(zi == 0):
                    probes['limiter_bound'] = probes.get('limiter_bound', 0) + 1


def run_sim(plan):
    v, probes = [], {}
    p = dict(plan)
    p['segments'] = [plan['tf']]
    hist = tdssim.new_hist()
    np.random.seed(core.H(plan['seed'], 'numpy') % (2 ** 32))
    ss, kn = tdssim.build(p)
    if not ss.PFlow.run():
        return v, probes, ['pf-failed'], hist, ss
    HistoryShadow(ss, v, probes)
    taps = tdssim.Taps(hist, faults=tdssim.solver_fault_map(p), persist=False, check_mirror=False).install(ss)
    tol = ss.TDS.config.tol
    prev = taps.ss.TDS.callpert
    state = {'prev_bound': None}

    def callpert(t, system):
        if not v:
            # an event dispatched after the last evaluation (e.g. fault clearance restoring voltages) moves inputs while the
            # flags still belong to the last Newton iteration: comparison consistency is only judged without an event in between
            last_att = hist['attempts'][-1]['seq'] if hist['attempts'] else 0
            after_event = bool(hist['timer_log']) and hist['timer_log'][-1]['seq'] > last_att
            # after a rejected attempt x/y/f are restored but the flags belong to the abandoned iterate; chattering steps are
            # accepted by design with inconsistent flags: both are re-evaluated before their next use
            if hist['attempts'] and hist['attempts'][-1]['chatter']:
                after_event = True
            if hist['attempts'] and (not hist['attempts'][-1]['converged'] or hist['attempts'][-1]['chatter']):
                # after a rejection x/y/f are restored, but flags and variable limits (VarService) still belong to the
                # abandoned iterate until the next evaluation: nothing stored, nothing to judge.  A step accepted through the
                # chattering rule is accepted with a large last increment by design (precondition unmet, counted)
                probes['monitor_skipped'] = probes.get('monitor_skipped', 0) + 1
                pass
            else:
                limiter_monitor(system, v, probes, tol, after_event=after_event)
        prev(t, system)
    ss.TDS.callpert = callpert
    ss.TDS.config.tf = plan['tf']
    try:
        ret = ss.TDS.run()
    except Exception as e:
        ret = False
        hist['exception'] = repr(e)[:200]
    hist['segments'].append({'tf': plan['tf'], 'ret': bool(ret), 't_start': 0.0, 't_end': float(ss.dae.t), 'busted': bool(ss.TDS.busted),
                             'exit_code': int(ss.exit_code), 'n_attempts': hist['n_attempts']})
    ss.TDS.callpert = prev
    taps.remove()
    # held state => stored derivative is zero
    released = 0
    prev_held = set()
    for a in hist['attempts']:
        if not a['converged']:
            continue
        held = set(a.get('held_last', ()))
        if held and not v:
            idx = np.array(sorted(h for h in held if h < len(a['f1'])), dtype=int)
            if len(idx) and np.any(a['f1'][idx] != 0):
                j = int(idx[np.where(a['f1'][idx] != 0)[0][0]])
                v.append(V('held_derivative', 'state %s is held by an anti-windup limiter at t=%.5f but its stored derivative is %g' %
                           (ss.dae.x_name[j], a['t'], a['f1'][j]), what='nonzero'))
        released += len(prev_held - held)
        prev_held = held
    probes['limiter_released'] = released
    probes['step_rejected'] = sum(1 for a in hist['attempts'] if not a['converged'])
    bound_kinds = sorted({n for n in ('limiter_bound',) if probes.get(n)})
    return v, probes, [plan['case'], bool(probes.get('limiter_bound')), bool(probes.get('rewind_seen')), released > 0,
                       plan['knobs'].get('TDS.method', 'trapezoid')], hist, ss


# --------------------------------------------------------------------------------------------
# stand-alone component histories
# --------------------------------------------------------------------------------------------

def _stubs(n):
    from andes.core.param import NumParam
    from andes.core.var import Algeb, State
    return NumParam, Algeb, State


def run_flag_enum():
    """Exhaustive: every ordering of (u, lower, upper) on a 4-point grid x equal x one-sided x sign options."""
    from andes.core.discrete import DeadBand, HardLimiter, Limiter
    from andes.core.param import NumParam
    from andes.core.var import Algeb
    v, probes = [], {'flags_checked': 0, 'equal_limits': 0, 'sign_flipped': 0}
    grid = [-1.0, 0.0, 0.5, 2.0]
    triples = [(u, lo, up) for u in grid for lo in grid for up in grid if lo <= up]
    uu = np.array([t[0] for t in triples])
    for cls in (Limiter, HardLimiter, DeadBand):
        for equal in (True, False):
            for no_lower, no_upper in ((False, False), (True, False), (False, True)):
                for sl, su in ((1, 1), (-1, 1), (1, -1)):
                    u, lo, up = Algeb(), NumParam(), NumParam()
                    u.v = uu.copy()
                    lo_v = np.array([t[1] for t in triples])
                    up_v = np.array([t[2] for t in triples])
                    lo.v = (-lo_v if sl == -1 else lo_v).copy()
                    up.v = (-up_v if su == -1 else up_v).copy()
                    kw = dict(equal=equal)
                    if cls is DeadBand:
                        c = NumParam()
                        c.v = np.zeros(len(uu))
                        if no_lower or no_upper or sl == -1 or su == -1:
                            continue
                        d = cls(u, c, lo, up, equal=equal)
                    else:
                        d = cls(u, lo, up, no_lower=no_lower, no_upper=no_upper, sign_lower=sl, sign_upper=su, **kw)
                    d.list2array(len(uu))
                    d.check_var()
                    ezi, ezl, ezu = H.limiter_flags(uu, lo_v, up_v, equal=equal, no_lower=no_lower, no_upper=no_upper)
                    probes['flags_checked'] += len(uu)
                    probes['sign_flipped'] += int(sl == -1 or su == -1)
                    zl = np.zeros(len(uu)) if no_lower else d.zl
                    zu = np.zeros(len(uu)) if no_upper else d.zu
                    strict = lo_v < up_v
                    probes['equal_limits'] += int(np.sum(~strict))
                    if not (np.array_equal(zl, ezl) and np.array_equal(zu, ezu)):
                        j = int(np.where((zl != ezl) | (zu != ezu))[0][0])
                        v.append(V('flags_consistent', '%s(equal=%s, no_lower=%s, no_upper=%s, signs=%s/%s): u=%g limits [%g,%g] -> (zl,zu)=(%g,%g), '
                                   'comparison gives (%g,%g)' % (cls.__name__, equal, no_lower, no_upper, sl, su, uu[j], lo_v[j], up_v[j],
                                                                 zl[j], zu[j], ezl[j], ezu[j]), kind=cls.__name__, standalone=True))
                    s = d.zi + zl + zu
                    bad = (s != 1) & strict
                    if np.any(bad):
                        j = int(np.where(bad)[0][0])
                        v.append(V('flags_one_hot', '%s: u=%g limits [%g,%g] -> (zi,zl,zu)=(%g,%g,%g)' %
                                   (cls.__name__, uu[j], lo_v[j], up_v[j], d.zi[j], zl[j], zu[j]), kind=cls.__name__, standalone=True))
                    deg = (s != 1) & (~strict)
                    if np.any(deg):
                        j = int(np.where(deg)[0][0])
                        v.append(V('flags_one_hot', '%s with lower == upper == u (%g): flags (zi,zl,zu)=(%g,%g,%g) are not one-hot' %
                                   (cls.__name__, uu[j], d.zi[j], zl[j], zu[j]), kind=cls.__name__, standalone=True, degenerate=True))
    return v, probes, ['FlagEnum']


def run_comp(plan):
    if plan['component'] == 'FlagEnum':
        return run_flag_enum()
    from andes.core import discrete as D
    from andes.core.param import NumParam
    from andes.core.var import Algeb, State
    v, probes = [], {'history_calls': 0}
    comp, n, o = plan['component'], plan['n'], plan['opts']
    u = Algeb()
    u.v = np.zeros(n)
    lower, upper = NumParam(), NumParam()
    lo_v = np.array(o['lower'], float)
    up_v = lo_v + np.array(o['width'], float)
    kinds = []

    def fail(oracle, detail, **sig):
        if not v:
            v.append(V(oracle, '%s: %s' % (comp, detail), component=comp, standalone=True, **sig))

    if comp in ('DelayStep', 'DelayTime', 'AverageStep', 'Derivative', 'Sampling'):
        if comp == 'DelayStep':
            d, ref = D.Delay(u, mode='step', delay=o['delay']), H.DelayStep(o['delay'])
        elif comp == 'DelayTime':
            d, ref = D.Delay(u, mode='time', delay=o['tau']), H.DelayTime(o['tau'])
        elif comp == 'AverageStep':
            d, ref = D.Average(u, mode='step', delay=o['delay']), H.AverageStep(o['delay'])
        elif comp == 'Derivative':
            d, ref = D.Derivative(u), H.Derivative()
        else:
            d, ref = D.Sampling(u, interval=o['interval'], offset=0.0), None
        d.list2array(n)
        held = None
        last_sample_t = 0.0
        for ci, c in enumerate(plan['calls']):
            u.v = np.array(c['u'], float)
            t = c['t']
            if comp == 'DelayTime' and t != 0 and ref.h.t and t < ref.h.t[-1]:
                kinds.append('rw')
            with np.errstate(all='ignore'):
                try:
                    d.check_var(t)
                except Exception as e:
                    fail('history_component', 'check_var(%r) raised %s: %s (call %d)' % (t, type(e).__name__, str(e)[:80], ci),
                         what='raised')
                    break
            probes['history_calls'] += 1
            if ref is not None:
                exp = ref.feed(t, u.v)
                if ref.h.rewound:
                    probes['rewind_seen'] = probes.get('rewind_seen', 0) + 1
                if comp == 'DelayTime' and t - o['tau'] > ref.h.t[0]:
                    probes['delay_interpolated'] = probes.get('delay_interpolated', 0) + 1
                if not np.allclose(d.v, exp, rtol=1e-9, atol=1e-12, equal_nan=True):
                    extra = {}
                    if comp == 'DelayTime':
                        # the delayed instant lies in the newest interval (delay shorter than the last step): the output then
                        # depends on the current input and must follow repeated evaluations at the same stamp
                        extra['tau_lt_step'] = bool(len(ref.h.t) >= 2 and t - o['tau'] > ref.h.t[-2])
                        extra['repeat'] = bool(ci > 0 and plan['calls'][ci - 1]['t'] == t)
                    fail('history_component', 'call %d at t=%r returned %s, definition gives %s (rewind=%s, %d stamps)' %
                         (ci, t, np.array(d.v), np.array(exp), ref.h.rewound, len(ref.h.t)), rewind=bool(ref.h.rewound), **extra)
                    break
            else:
                # sample and hold: output is always one of the inputs seen at or before t, and is held between samples
                if t == 0:
                    held, last_sample_t, seen = u.v.copy(), 0.0, [u.v.copy()]
                else:
                    seen.append(u.v.copy())
                if not any(np.array_equal(d.v, s) for s in seen):
                    fail('history_component', 'call %d at t=%r: output %s is not a sampled input' % (ci, t, np.array(d.v)), what='not_a_sample')
                    break
        return v, probes, [comp, 'rewind' if probes.get('rewind_seen') else 'forward']

    # ---- flag components
    lower.v = (-lo_v if o['sign_lower'] == -1 else lo_v).copy()
    upper.v = (-up_v if o['sign_upper'] == -1 else up_v).copy()
    probes['flags_checked'] = 0
    if comp in ('Limiter', 'HardLimiter'):
        d = getattr(D, comp)(u, lower, upper, equal=o['equal'], no_lower=o['no_lower'], no_upper=o['no_upper'],
                             sign_lower=o['sign_lower'], sign_upper=o['sign_upper'])
        d.list2array(n)
        for c in plan['calls']:
            u.v = np.array(c['u'], float)
            d.check_var()
            ezi, ezl, ezu = H.limiter_flags(u.v, lo_v, up_v, equal=o['equal'], no_lower=o['no_lower'], no_upper=o['no_upper'])
            zl = np.zeros(n) if o['no_lower'] else d.zl
            zu = np.zeros(n) if o['no_upper'] else d.zu
            probes['flags_checked'] += n
            if not (np.array_equal(zl, ezl) and np.array_equal(zu, ezu) and np.array_equal(d.zi, ezi)):
                if np.all(lo_v < up_v) or not (np.array_equal(zl, ezl) and np.array_equal(zu, ezu)):
                    fail('flags_consistent', 'u=%s limits [%s,%s] -> (zi,zl,zu)=(%s,%s,%s), comparison gives (%s,%s,%s)' %
                         (u.v, lo_v, up_v, d.zi, zl, zu, ezi, ezl, ezu), kind=comp)
                    break
    elif comp in ('DeadBand', 'DeadBandRT'):
        center = NumParam()
        center.v = np.zeros(n)
        lower.v, upper.v = lo_v.copy(), up_v.copy()
        d = getattr(D, comp)(u, center, lower, upper)
        d.list2array(n)
        zur = np.zeros(n)
        zlr = np.zeros(n)
        for c in plan['calls']:
            u.v = np.array(c['u'], float)
            d.check_var()
            ezi, ezl, ezu = H.limiter_flags(u.v, lo_v, up_v, equal=False)
            probes['flags_checked'] += n
            if not (np.array_equal(d.zl, ezl) and np.array_equal(d.zu, ezu) and np.array_equal(d.zi, ezi)):
                fail('flags_consistent', 'u=%s band [%s,%s] -> (zi,zl,zu)=(%s,%s,%s)' % (u.v, lo_v, up_v, d.zi, d.zl, d.zu), kind=comp)
                break
    elif comp == 'SortedLimiter':
        d = D.SortedLimiter(u, lower, upper, n_select=o['n_select'])
        lower.v, upper.v = lo_v.copy(), up_v.copy()
        d.list2array(n)
        # SortedLimiter latches its flags (ql/qu) by design: only the first evaluation of a fresh instance is a pure
        # function of the input
        for c in plan['calls'][:1]:
            u.v = np.array(c['u'], float)
            d.check_var(niter=5, err=0.0)
            ezi, ezl, ezu = H.limiter_flags(u.v, lo_v, up_v, equal=True)
            probes['flags_checked'] += n
            # a sorted limiter may only flag elements that do violate, and at most n_select per side
            if np.any((d.zl == 1) & (ezl == 0)) or np.any((d.zu == 1) & (ezu == 0)):
                fail('flags_consistent', 'flags an element that does not violate: u=%s [%s,%s] zl=%s zu=%s' % (u.v, lo_v, up_v, d.zl, d.zu),
                     kind=comp)
                break
            if np.any(d.zi + d.zl + d.zu != 1) and np.all(lo_v < up_v):
                fail('flags_one_hot', 'u=%s -> (zi,zl,zu)=(%s,%s,%s)' % (u.v, d.zi, d.zl, d.zu), kind=comp)
                break
            ns = o['n_select']
            if ns >= 1 and ns < n and (np.sum(d.zl) > ns or np.sum(d.zu) > ns):
                fail('flags_consistent', 'more than n_select=%d elements flagged on one side: zl=%s zu=%s' % (ns, d.zl, d.zu), kind=comp,
                     what='more_than_n_select')
                break
    elif comp == 'AntiWindup':
        x = State()
        x.v = np.zeros(n)
        x.e = np.zeros(n)
        x.a = np.arange(n)
        lower.v, upper.v = lo_v.copy(), up_v.copy()
        d = D.AntiWindup(x, lower, upper)
        d.list2array(n)
        for c in plan['calls']:
            x.v = np.array(c['u'], float)
            x.e = np.array(c['e'], float)
            v_in, e_in = x.v.copy(), x.e.copy()
            d.check_eq(niter=0)
            probes['flags_checked'] += n
            ezu = ((v_in >= up_v) & (e_in >= 0)).astype(float)
            ezl = ((v_in <= lo_v) & (e_in <= 0)).astype(float) * (1 - ezu)     # upper flag takes precedence (coinciding limits)
            strict = lo_v < up_v
            if not (np.array_equal(d.zu, ezu) and np.array_equal(d.zl, ezl)):
                fail('flags_consistent', 'x=%s dx=%s limits [%s,%s] -> zl=%s zu=%s' % (v_in, e_in, lo_v, up_v, d.zl, d.zu), kind=comp)
                break
            heldm = (d.zi == 0) & strict
            if np.any(x.e[heldm] != 0):
                fail('held_derivative', 'held state keeps derivative %s' % x.e[heldm], what='nonzero')
                break
            exp_v = np.where(ezu == 1, up_v, np.where(ezl == 1, lo_v, v_in))
            if np.any((x.v != exp_v) & strict):
                fail('clamp', 'x=%s dx=%s limits [%s,%s] -> pegged value %s, expected %s' % (v_in, e_in, lo_v, up_v, x.v, exp_v), kind=comp)
                break
            if np.any(heldm):
                probes['limiter_bound'] = probes.get('limiter_bound', 0) + 1
    elif comp == 'RateLimiter':
        x = State()
        x.v = np.zeros(n)
        x.e = np.zeros(n)
        lower.v, upper.v = -np.abs(lo_v) - 0.1, np.abs(up_v) + 0.1
        d = D.RateLimiter(x, lower, upper)
        d.list2array(n)
        for c in plan['calls']:
            x.e = np.array(c['e'], float) * 3
            e_in = x.e.copy()
            d.check_eq()
            probes['flags_checked'] += n
            exp = np.clip(e_in, lower.v, upper.v)
            if not np.array_equal(x.e, exp):
                fail('clamp', 'rate %s limited to %s, expected %s' % (e_in, x.e, exp), kind=comp)
                break
    elif comp == 'Switcher':
        opts = [0, 1, 2, 5]
        d = D.Switcher(u, options=opts)
        u.v = np.array([opts[int(abs(a)) % 4] for a in plan['calls'][0]['u']], float)
        d.list2array(n)
        d.check_var()
        probes['flags_checked'] += n
        for k, opt in enumerate(opts):
            s = getattr(d, 's%d' % k)
            if not np.array_equal(s, (u.v == opt).astype(float)):
                fail('flags_consistent', 'option %s: flags %s for input %s' % (opt, s, u.v), kind=comp)
        tot = sum(getattr(d, 's%d' % k) for k in range(len(opts)))
        if not np.all(tot == 1):
            fail('flags_one_hot', 'switcher flags sum to %s' % tot, kind=comp)
    elif comp == 'LessThan':
        b = NumParam()
        b.v = lo_v.copy()
        d = D.LessThan(u, b, equal=o['equal'])
        d.list2array(n)
        for c in plan['calls']:
            u.v = np.array(c['u'], float)
            d.check_var()
            probes['flags_checked'] += n
            e1 = (u.v <= lo_v) if o['equal'] else (u.v < lo_v)
            if not (np.array_equal(d.z1, e1.astype(float)) and np.array_equal(d.z0, 1 - e1.astype(float))):
                fail('flags_consistent', 'u=%s bound=%s equal=%s -> z1=%s z0=%s' % (u.v, lo_v, o['equal'], d.z1, d.z0), kind=comp)
                break
    if np.any(lo_v == up_v):
        probes['equal_limits'] = 1
    if o['sign_lower'] == -1 or o['sign_upper'] == -1:
        probes['sign_flipped'] = 1
    return v, probes, [comp, o['equal'], o['no_lower'], o['no_upper'], o['sign_lower'], o['sign_upper']]


def execute(plan):
    if plan.get('stub'):
        plan = elaborate(plan)
    if plan.get('_need_devices'):
        from dst.world import build_system
        plan = _finish(plan, build_system(plan['case'], setup=False))
    res = {'plan': plan}
    hist = None
    if plan['cls'] == 'sim':
        v, probes, sig, hist, ss = run_sim(plan)
    else:
        v, probes, sig = run_comp(plan)
    res['violations'] = v
    res['probes'] = probes
    res['sig'] = json.dumps([plan['cls']] + sig, default=str)
    res['nontrivial'] = bool(probes.get('limiter_bound') or probes.get('rewind_seen') or probes.get('flags_checked')
                             or probes.get('history_calls', 0) > 3)
    res['faults'] = dict(hist['faults_fired']) if hist else {}
    if probes.get('rewind_seen'):
        res['faults']['rewind'] = probes['rewind_seen']
    res['sim_seconds'] = tdssim.t_reached(hist) if hist and hist['segments'] else 0.0
    res['steps'] = hist['n_attempts'] if hist else len(plan.get('calls', []))
    d = core.Digest()
    d.add(res['sig'], sorted(core.vclass(x) for x in v), sorted(probes.items()))
    if hist:
        d.add(tdssim.digest_of(hist, None))
        tdssim.cleanup(hist)
    res['digest'] = d.hex()
    return res


def simplify(plan):
    if plan.get('cls') == 'comp' and plan.get('n', 1) > 1:
        q = json.loads(json.dumps(plan))
        q['n'] = 1
        for c in q['calls']:
            c['u'], c['e'] = c['u'][:1], c['e'][:1]
        for k in ('lower', 'width'):
            q['opts'][k] = q['opts'][k][:1]
        yield q


def extra_coverage(results, tier):
    return {'exhaustive_subspaces': ['limiter flag algebra: all (u, lower<=upper) triples on a 4-point grid x {Limiter, HardLimiter, DeadBand} '
                                     'x equal x one-sided x sign-flip options (plan FlagEnum)']}
