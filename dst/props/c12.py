"""
C12 -- island detection and status propagation match the network graph.

Engines: lifecycle-sim (static + bus-off histories) and tds-sim (dynamic histories).
  enum     ALL 2^L on/off patterns of L <= 8 series devices on three fixed topologies (Lines + a Jumper, multi-edges),
           re-evaluated on one System; slack generators on two buses with both status combinations.
  static   seeded topologies of 2-12 buses (radial / meshed / multi-edge, Lines and Jumpers), seeded on/off patterns
           including all-out, seeded enabled/disabled slack generators; power flow of the remaining network when it has
           exactly one slack island: isolated buses must be neutralised (zero residual, eps diagonal, values untouched).
  dynamic  stock dynamic case + seeded Toggle schedule on Lines (patterns that island loads, split the system or
           disconnect the slack); after every switching event the partition recorded by the ConnTap seam is compared.
  busoff   seeded buses switched off through Bus.alter / Bus.set after set-up; after the routine start-up exactly the
           devices attached to those buses are off and nothing else changed (whole-system diff).
Oracle: union-find over in-service Line/Jumper edges (dst/refmodels/unionfind.py).
"""

import itertools
import json

import numpy as np

from dst import core, gen, tdssim
from dst.core import stream
from dst.refmodels import unionfind as uf
from dst.tdssim import V
from dst.world import all_status, build_system, diff_snap

PROP = 'C12'
LEVEL = 'exploration'
COUNTS = {'quick': 400, 'thorough': 12000}
BUDGET = {'quick': 110, 'thorough': 1500}
TIMEOUT = 200
SHRINK_LISTS = [['edges'], ['events'], ['off_buses']]
EXPECTED_PROBES = ['patterns_checked', 'multi_island', 'isolated_bus', 'all_out', 'slack_disconnected', 'conn_after_event',
                   'bus_off', 'pf_with_isolated']
RULE = ('plans of classes enum / static / dynamic / busoff (module doc); non-trivial = the pattern has at least one out-of-service series '
        'device or one switched-off bus; distinct = (class, topology or case, number of islands, number of isolated buses, slack classes)')
ASSUMPTIONS = [
    'graph = in-service Line and Jumper devices (Fortescue transformers are not generated)',
    'bus-off propagation is judged against the groups ANDES documents as bus-attached (ACLine, ACShort, StaticGen, StaticLoad, StaticShunt, '
    'Motor, measurements, Interface, StaticACDC); dynamic devices follow their static devices and are not judged',
]

ENUM_TOPOS = [
    {'n': 5, 'edges': [(0, 1, 'L'), (1, 2, 'L'), (2, 3, 'L'), (3, 4, 'L'), (4, 0, 'L'), (1, 3, 'L'), (0, 2, 'J')], 'slack': [0, 3]},
    {'n': 6, 'edges': [(0, 1, 'L'), (0, 1, 'L'), (1, 2, 'L'), (2, 3, 'J'), (3, 4, 'L'), (4, 5, 'L'), (5, 3, 'L'), (2, 5, 'L')], 'slack': [0, 4]},
    {'n': 7, 'edges': [(0, 1, 'L'), (1, 2, 'L'), (1, 3, 'L'), (3, 4, 'L'), (3, 5, 'L'), (5, 6, 'L'), (0, 6, 'J'), (2, 4, 'L')], 'slack': [2, 6]},
]


def plans(seed, tier, count):
    out = []
    for ti in range(len(ENUM_TOPOS)):
        for su in ((1, 1), (1, 0), (0, 0)):
            out.append({'property': PROP, 'cls': 'enum', 'seed': core.H('enum12', ti, su), 'topo': ti, 'slack_u': list(su)})
    i = 0
    while len(out) < count:
        out.append({'stub': True, 'seed': core.H(seed, PROP, i), 'tier': tier})
        i += 1
    return out


def elaborate(stub):
    seed = stub['seed']
    r = stream(seed, 'class')
    x = r.random()
    cls = 'static' if x < 0.55 else ('dynamic' if x < 0.8 else 'busoff')
    if cls == 'static':
        n = r.randint(2, 12)
        edges = []
        kind = r.choice(['radial', 'meshed', 'ring', 'sparse'])
        if kind in ('radial', 'meshed', 'ring'):
            for k in range(1, n):
                edges.append([r.randrange(k), k, 'L' if r.random() < 0.85 else 'J', 1])
        if kind == 'ring' and n > 2:
            edges.append([n - 1, 0, 'L', 1])
        extra = {'radial': 0, 'ring': 1, 'meshed': r.randint(1, n), 'sparse': r.randint(0, n)}[kind]
        for _ in range(extra):
            a, b = r.randrange(n), r.randrange(n)
            if a != b:
                edges.append([a, b, 'L' if r.random() < 0.85 else 'J', 1])
        mode = r.choice(['few_out', 'few_out', 'half', 'most_out', 'all_out', 'none_out'])
        p_out = {'few_out': 0.15, 'half': 0.5, 'most_out': 0.85, 'all_out': 1.0, 'none_out': 0.0}[mode]
        for e in edges:
            e[3] = 0 if r.random() < p_out else 1
        if not edges:
            edges.append([0, 1, 'L', 0])
        slack = [[r.randrange(n), 1 if r.random() < 0.8 else 0] for _ in range(r.choice([1, 1, 2, 3]))]
        return {'property': PROP, 'cls': 'static', 'seed': seed, 'n': n, 'edges': edges, 'slack': slack, 'kind': kind,
                'with_pf': r.random() < 0.6}
    rng = stream(seed, 'case')
    if cls == 'dynamic':
        case = gen.pick_case(rng, include_big=False)
        nl = len(case['lines'])
        evs = []
        t = 0.1
        for j in range(r.randint(1, 5)):
            t = round(t + r.choice([0.05, 0.1, 0.2, 1e-4]), 4)
            evs.append({'model': 'Toggle', 'params': {'model': 'Line', 'dev': _idx(r.choice(case['lines'])), 't': t, 'idx': 'C12T%d' % j}})
        return {'property': PROP, 'cls': 'dynamic', 'seed': seed, 'case': case['case'], 'events': evs, 'tf': round(t + 0.15, 4),
                'knobs': {'TDS.tstep': 1 / 30}}
    case = gen.pick_case(rng, include_big=False)
    nb = case['nbus']
    off = sorted({r.randrange(nb) for _ in range(r.choice([1, 1, 2, 3]))})
    return {'property': PROP, 'cls': 'busoff', 'seed': seed, 'case': case['case'], 'off_buses': off, 'via': r.choice(['alter', 'set']),
            'when': r.choice(['before_pf', 'before_pf', 'after_pf'])}


# groups whose devices hang on a bus (the simulator's own list: documented behaviour of the pinned tree, not imported from it)
bus_deps = {'ACLine': ['bus1', 'bus2'], 'ACShort': ['bus1', 'bus2'], 'FreqMeasurement': ['bus'], 'Interface': ['bus'], 'Motor': ['bus'],
            'PhasorMeasurement': ['bus'], 'StaticACDC': ['bus'], 'StaticGen': ['bus'], 'StaticLoad': ['bus'], 'StaticShunt': ['bus']}


def _idx(s):
    try:
        return int(s)
    except (TypeError, ValueError):
        return s


# --------------------------------------------------------------------------------------------

def make_network(n, edges, slack, loads=True):
    import andes
    ss = andes.System(default_config=True, no_output=True, autogen_stale=False)
    for k in range(n):
        ss.add('Bus', {'idx': k, 'name': 'B%d' % k, 'Vn': 110.0})
    nl = nj = 0
    for (a, b, kind, u) in edges:
        if kind == 'J':
            ss.add('Jumper', {'idx': 'J%d' % nj, 'bus1': a, 'bus2': b, 'u': u})
            nj += 1
        else:
            ss.add('Line', {'idx': 'L%d' % nl, 'bus1': a, 'bus2': b, 'u': u, 'r': 0.01, 'x': 0.1, 'b': 0.02, 'Vn1': 110.0, 'Vn2': 110.0})
            nl += 1
    for k, (b, u) in enumerate(slack):
        ss.add('Slack', {'idx': 'S%d' % k, 'bus': b, 'u': u, 'Vn': 110.0, 'v0': 1.0, 'a0': 0.0, 'p0': 0.1})
    if loads:
        for k in range(n):
            ss.add('PQ', {'idx': 'P%d' % k, 'bus': k, 'Vn': 110.0, 'p0': 0.05 + 0.01 * k, 'q0': 0.01})
    ss.setup()
    return ss


def edges_of(ss):
    e = []
    for mdl in (ss.Line, ss.Jumper):
        if not mdl.n:
            continue
        b1 = ss.Bus.idx2uid(list(mdl.bus1.v))
        b2 = ss.Bus.idx2uid(list(mdl.bus2.v))
        for a, b, u in zip(b1, b2, mdl.u.v):
            e.append((int(a), int(b), int(u)))
    return e


def compare_conn(ss, where, v, probes):
    """Compare ss.Bus.* after a connectivity() call with the union-find reference."""
    n = ss.Bus.n
    iso, comps = uf.components(n, edges_of(ss))
    slack = []
    if ss.Slack.n:
        for b, u in zip(ss.Bus.idx2uid(list(ss.Slack.bus.v)), ss.Slack.u.v):
            slack.append((int(b), int(u)))
    nosw, msw = uf.slack_classes(comps, slack)
    got_iso = sorted(int(b) for b in ss.Bus.islanded_buses)
    got_sets = [sorted(int(b) for b in s) for s in ss.Bus.island_sets]
    got_islands = sorted(sorted(int(b) for b in s) for s in ss.Bus.islands)
    probes['patterns_checked'] = probes.get('patterns_checked', 0) + 1
    if len(comps) > 1:
        probes['multi_island'] = probes.get('multi_island', 0) + 1
    if iso:
        probes['isolated_bus'] = probes.get('isolated_bus', 0) + 1
    sig = dict(where=where)
    if got_iso != iso:
        v.append(V('isolated', '%s: isolated buses %s, graph has %s' % (where, got_iso, iso), **sig))
        return False
    # the addresses that g_islands / j_islands neutralise must be those of exactly the isolated buses of *this* check
    na = sorted(int(k) for k in np.ravel(getattr(ss.Bus, 'islanded_a', [])))
    nv = sorted(int(k) for k in np.ravel(getattr(ss.Bus, 'islanded_v', [])))
    if na != sorted(int(ss.Bus.a.a[k]) for k in iso) or nv != sorted(int(ss.Bus.v.a[k]) for k in iso):
        v.append(V('neutralised', '%s: isolated buses %s but the neutralised addresses are a=%s v=%s' % (where, iso, na, nv), **sig))
        return False
    if sorted(got_sets) != comps:
        v.append(V('partition', '%s: island sets %s, connected components %s' % (where, sorted(got_sets)[:6], comps[:6]), **sig))
        return False
    exp_islands = sorted([[k] for k in iso] + comps) if comps else sorted([[k] for k in iso] + ([list(range(n))] if not iso else []))
    if comps and got_islands != exp_islands:
        v.append(V('partition', '%s: Bus.islands %s, expected %s' % (where, got_islands[:6], exp_islands[:6]), what='islands_list', **sig))
        return False
    # slack classification refers to positions in island_sets
    got_nosw = sorted(got_sets[i] for i in ss.Bus.nosw_island)
    got_msw = sorted(got_sets[i] for i in ss.Bus.msw_island)
    if got_nosw != sorted(comps[i] for i in nosw) or got_msw != sorted(comps[i] for i in msw):
        v.append(V('slack_class', '%s: islands without slack %s / with several %s; graph: %s / %s' %
                   (where, got_nosw, got_msw, [comps[i] for i in nosw], [comps[i] for i in msw]), **sig))
        return False
    if nosw and any(u for _, u in slack):
        probes['slack_disconnected'] = probes.get('slack_disconnected', 0) + 1
    return True


def call_conn(ss, where, v, probes):
    try:
        ss.connectivity(info=False)
    except Exception as e:
        allout = all(u == 0 for _, _, u in edges_of(ss))
        v.append(V('connectivity_raises', '%s: connectivity() raised %s: %s (all series devices out: %s)' %
                   (where, type(e).__name__, str(e)[:80], allout), type=type(e).__name__, all_out=allout))
        return False
    return compare_conn(ss, where, v, probes)


def run_enum(plan):
    v, probes = [], {}
    topo = ENUM_TOPOS[plan['topo']]
    edges = [(a, b, k, 1) for (a, b, k) in topo['edges']]
    ss = make_network(topo['n'], edges, list(zip(topo['slack'], plan['slack_u'])), loads=False)
    L = len(edges)
    kinds = [k for (_, _, k) in topo['edges']]
    for bits in itertools.product((0, 1), repeat=L):
        li = ji = 0
        for k, u in zip(kinds, bits):
            if k == 'J':
                ss.Jumper.u.v[ji] = u
                ji += 1
            else:
                ss.Line.u.v[li] = u
                li += 1
        if sum(bits) == 0:
            probes['all_out'] = probes.get('all_out', 0) + 1
        if not call_conn(ss, 'pattern %s' % ''.join(map(str, bits)), v, probes):
            if len(v) >= 3:
                break
    return v, probes, ['enum', plan['topo'], plan['slack_u']]


def run_static(plan):
    v, probes = [], {}
    ss = make_network(plan['n'], [tuple(e) for e in plan['edges']], [tuple(s) for s in plan['slack']])
    if all(e[3] == 0 for e in plan['edges']):
        probes['all_out'] = 1
    ok = call_conn(ss, 'after setup', v, probes)
    n_iso, n_comp = len(ss.Bus.islanded_buses), len(ss.Bus.island_sets)
    if ok and plan.get('with_pf'):
        iso, comps = uf.components(plan['n'], edges_of(ss))
        slack = [(int(b), int(u)) for b, u in zip(ss.Bus.idx2uid(list(ss.Slack.bus.v)), ss.Slack.u.v)]
        nosw, msw = uf.slack_classes(comps, slack)
        if len(comps) >= 1 and not nosw and not msw:
            # loads on isolated buses cannot be served: switch them off the way a user would, generators there as well
            for k in iso:
                ss.PQ.u.v[k] = 0
            a0, v0 = ss.Bus.a0.v.copy(), ss.Bus.v0.v.copy()
            with np.errstate(all='ignore'):
                try:
                    ret = ss.PFlow.run()
                except Exception as e:
                    ret = None
                    v.append(V('pf_isolated', 'power flow with %d isolated buses raised %s: %s' % (len(iso), type(e).__name__, str(e)[:80]),
                               what='raised'))
            if ret is False and iso:
                v.append(V('pf_isolated', 'well-posed network (every island has one slack) with isolated buses %s does not converge' % iso,
                           what='no_convergence'))
            if ret and iso:
                probes['pf_with_isolated'] = 1
                ia = np.array(iso)
                if np.any(ss.dae.g[ss.Bus.a.a[ia]] != 0) or np.any(ss.dae.g[ss.Bus.v.a[ia]] != 0):
                    v.append(V('pf_isolated', 'isolated buses keep a non-zero residual', what='residual'))
                if not (np.allclose(ss.Bus.a.v[ia], a0[ia]) and np.allclose(ss.Bus.v.v[ia], v0[ia])):
                    v.append(V('pf_isolated', 'angles / voltages of isolated buses moved from their initial values', what='moved'))
    return v, probes, ['static', plan['kind'], min(n_comp, 4), min(n_iso, 4)]


def run_dynamic(plan):
    v, probes = [], {}
    p = {'case': plan['case'], 'knobs': plan['knobs'], 'channels': {}, 'events': plan['events'], 'disable_stock_events': True,
         'segments': [plan['tf']], 'seed': plan['seed']}
    ss, hist = tdssim.simulate(p, taps_kwargs={'persist': False, 'check_mirror': False})
    if not hist['pf']:
        return v, probes, ['dynamic', 'pf-failed'], hist
    v += [x for x in hist['violations'] if x['oracle'] == 'run_exception']
    n_after = 0
    fired = sorted(r['seq'] for r in hist['timer_log'] if r['enabled'] == 1)
    # each conn record carries line_u at that instant; compare partition with union-find on that status
    b1 = [int(x) for x in ss.Bus.idx2uid(list(ss.Line.bus1.v))]
    b2 = [int(x) for x in ss.Bus.idx2uid(list(ss.Line.bus2.v))]
    jb = []
    if ss.Jumper.n:
        jb = list(zip([int(x) for x in ss.Bus.idx2uid(list(ss.Jumper.bus1.v))], [int(x) for x in ss.Bus.idx2uid(list(ss.Jumper.bus2.v))],
                      [int(u) for u in ss.Jumper.u.v]))
    for rec in hist['conn_log']:
        edges = [(a, b, int(u)) for a, b, u in zip(b1, b2, rec['line_u'])] + jb
        iso, comps = uf.components(ss.Bus.n, edges)
        probes['patterns_checked'] = probes.get('patterns_checked', 0) + 1
        if rec['t'] > 0:
            n_after += 1
        if len(comps) > 1:
            probes['multi_island'] = probes.get('multi_island', 0) + 1
        if iso:
            probes['isolated_bus'] = probes.get('isolated_bus', 0) + 1
        if rec['islanded'] != iso or sorted(rec['island_sets']) != comps:
            v.append(V('partition', 'after the event at t=%.4f: islands %s / isolated %s, graph: %s / %s' %
                       (rec['t'], sorted(rec['island_sets'])[:5], rec['islanded'], comps[:5], iso), where='tds'))
            break
        if 'neutral_a' in rec and (rec['neutral_a'] != sorted(rec['bus_a'][k] for k in iso) or
                                   rec['neutral_v'] != sorted(rec['bus_v'][k] for k in iso)):
            v.append(V('neutralised', 'after the event at t=%.4f: isolated buses %s but the neutralised addresses are a=%s v=%s' %
                       (rec['t'], iso, rec['neutral_a'], rec['neutral_v']), where='tds'))
            break
    probes['conn_after_event'] = n_after
    # every line-switching instant must have produced a re-check
    sw_times = sorted({r['t'] for r in hist['timer_log'] if r['enabled'] == 1 and r['ret']})
    chk_times = {rec['t'] for rec in hist['conn_log']}
    missing = [t for t in sw_times if t not in chk_times]
    if missing and ss.TDS.config.check_conn == 1:
        v.append(V('recheck', 'no connectivity re-check after the switching event(s) at t=%s' % missing[:3], where='tds'))
    return v, probes, ['dynamic', plan['case'], min(probes.get('multi_island', 0), 3)], hist


def run_busoff(plan):
    v, probes = [], {}
    ss = build_system(plan['case'], knobs={'TDS.no_tqdm': 1})
    if plan['when'] == 'after_pf':
        ss.PFlow.run()
    before = all_status(ss)
    idxs = [ss.Bus.idx.v[k] for k in plan['off_buses'] if k < ss.Bus.n]
    for bidx in idxs:
        if plan['via'] == 'alter':
            ss.Bus.alter('u', bidx, 0)
        else:
            ss.Bus.set('u', bidx, 'v', 0)
    probes['bus_off'] = len(idxs)
    with np.errstate(all='ignore'):
        try:
            ss.PFlow.run()
        except Exception as e:
            v.append(V('bus_off', 'power flow after switching buses %s off raised %s: %s' % (idxs, type(e).__name__, str(e)[:80]),
                       what='raised'))
            return v, probes, ['busoff', plan['case'], len(idxs)]
    after = all_status(ss)
    changed = diff_snap(before, after)
    offset = set(idxs)
    expected = set()
    for grp_name, srcs in bus_deps.items():
        grp = ss.groups[grp_name]
        for mname, mdl in grp.models.items():
            if not mdl.n:
                continue
            for i in range(mdl.n):
                if any(src in mdl.__dict__ and mdl.__dict__[src].v[i] in offset for src in srcs):
                    if before[mname][i] != 0:
                        expected.add((mname, i))
    for k in plan['off_buses']:
        if k < ss.Bus.n and before['Bus'][k] != 0:        # a bus that the case file already has out of service does not change
            expected.add(('Bus', k))
    got = {(m, i) for (m, f, i) in changed}
    extra = sorted(got - expected)
    missing = sorted(expected - got)
    if missing:
        v.append(V('bus_off', 'devices attached to the switched-off buses %s are still on: %s' % (idxs, missing[:5]), what='missing'))
    if extra:
        v.append(V('bus_off', 'devices not attached to the switched-off buses %s changed status: %s' % (idxs, extra[:5]), what='extra'))
    # the off buses must be reported as isolated afterwards
    iso = set(int(b) for b in ss.Bus.islanded_buses)
    for k in plan['off_buses']:
        if k < ss.Bus.n and k not in iso:
            v.append(V('bus_off', 'switched-off bus (uid %d) is not reported as isolated' % k, what='not_isolated'))
            break
    compare_conn(ss, 'after bus-off', v, probes)
    return v, probes, ['busoff', plan['case'], len(idxs), plan['via'], plan['when']]


def execute(plan):
    if plan.get('stub'):
        plan = elaborate(plan)
    res = {'plan': plan}
    hist = None
    cls = plan['cls']
    if cls == 'enum':
        v, probes, sig = run_enum(plan)
    elif cls == 'static':
        v, probes, sig = run_static(plan)
    elif cls == 'dynamic':
        v, probes, sig, hist = run_dynamic(plan)
    else:
        v, probes, sig = run_busoff(plan)
    res['violations'] = v
    res['probes'] = probes
    res['sig'] = json.dumps(sig, default=str)
    res['nontrivial'] = bool(probes.get('patterns_checked') or probes.get('bus_off'))
    res['faults'] = {}
    if hist:
        res['faults']['line_switching_events'] = sum(1 for r in hist['timer_log'] if r['enabled'] == 1)
    if probes.get('bus_off'):
        res['faults']['bus_off'] = probes['bus_off']
    res['sim_seconds'] = tdssim.t_reached(hist) if hist and hist['segments'] else 0.0
    res['steps'] = hist['n_attempts'] if hist else 0
    d = core.Digest()
    d.add(res['sig'], sorted(core.vclass(x) for x in v), sorted(probes.items()))
    res['digest'] = d.hex()
    if hist:
        tdssim.cleanup(hist)
    return res


def extra_coverage(results, tier):
    n = sum((r.get('probes') or {}).get('patterns_checked', 0) for r in results if (r.get('plan') or {}).get('cls') == 'enum')
    return {'exhaustive_subspaces': ['all 2^L on/off patterns (L = 7, 8, 8) of three fixed topologies x 3 slack status combinations: %d '
                                     'patterns evaluated' % n]}
