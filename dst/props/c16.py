"""
C16 -- results do not depend on solver back-end, acceleration options or repetition.

Engines: solver-sim (wrapper histories) + tds-sim.
  hist     seeded sequence of matrices handed to ONE Solver instance of one back-end: same pattern / new values,
           new pattern, new size, singular, regular again; through solve() or linsolve(); the factorise flags are
           set the way the routines set them, or deliberately not set where the property still promises A x = b
           (every call of KLU/UMFPACK and of linsolve; SciPy only after a refresh).  Oracle: dense reference
           (numpy.linalg): ||Ax-b|| <= 1e-9 ||b|| for regular A; singular => NaN / exception, and the next
           regular call is correct again.  Runs in a sacrificial worker: a signal death is an observation.
  stale    in a real TDS run the cached symbolic factor is declared stale once (ValueError) -> refactor path;
           trajectory must be bit-identical to the fault-free twin.
  cross    the same disturbed plan under {klu, umfpack, spsolve} x linsolve x ipadd x PF method at tol 1e-10:
           power flow within 1e-9, trajectories within 1e-6 (relative), eigenvalues within 1e-6; Jacobian sparsity
           pattern constant over all updates of a run.
  repeat   the same plan in two fresh interpreters with different PYTHONHASHSEED: identical sha256 of the result bytes.
"""

import hashlib
import json
import os
import subprocess

import numpy as np

from dst import core, gen, tdssim
from dst.core import stream
from dst.tdssim import V

PROP = 'C16'
LEVEL = 'exploration'
COUNTS = {'quick': 420, 'thorough': 12000}
BUDGET = {'quick': 110, 'thorough': 1500}
TIMEOUT = 240
SHRINK_LISTS = [['ops']]
EXPECTED_PROBES = ['needs_pivoting', 'hist_calls', 'same_object_calls', 'pattern_changed', 'singular_seen', 'recovered_after_singular', 'refactor_path_taken',
                   'cross_compared', 'eig_compared', 'repeat_compared', 'ipadd0', 'linsolve1']
RULE = ('plans of classes hist/stale/cross/repeat (module doc); non-trivial = a pattern or value change reached a cached factor, a '
        'fault fired, or two configurations were compared; distinct = (class, back-end, op-kind sequence / option pair / case)')
ASSUMPTIONS = [
    'dense reference numpy.linalg.solve; matrices are diagonally dominant (regular) or have an exactly zero row (singular)',
    'cross-option tolerances: PF 1e-9 absolute, trajectories and eigenvalues 1e-6 relative at TDS.tol = PFlow.tol = 1e-10',
]
BACKENDS = ['klu', 'umfpack', 'spsolve']


def crash_sig(plan):
    """Enrich the signature of a worker death with what the plan was doing (used for known-finding matching)."""
    if plan.get('cls') == 'hist':
        kinds = [o['kind'] for o in plan.get('ops', [])]
        risky = any(o['kind'] in ('new_pattern', 'new_size', 'needs_pivoting') and not o.get('refresh') and o.get('call') == 'solve'
                    for o in plan.get('ops', []))
        return {'cls': 'hist', 'backend': plan.get('backend'), 'pattern_change_without_refresh': bool(risky)}
    return {'cls': plan.get('cls')}


def plans(seed, tier, count):
    out = []
    # fixed: every back-end x the five op kinds in the canonical order, with and without refresh
    for be in BACKENDS:
        for refresh in (True, False):
            for call in ('solve', 'linsolve'):
                out.append({'property': PROP, 'cls': 'hist', 'seed': core.H('fix16', be, refresh, call), 'backend': be, 'n': 6,
                            'ops': [{'kind': k, 'call': call, 'refresh': refresh or k == 'first'} for k in
                                    ('first', 'same_pattern', 'same_object', 'new_pattern', 'same_object', 'singular', 'same_pattern', 'new_size',
                                     'same_pattern', 'same_object_singular', 'same_object', 'needs_pivoting', 'same_pattern')]})
    i = 0
    while len(out) < count:
        out.append({'stub': True, 'seed': core.H(seed, PROP, i), 'tier': tier})
        i += 1
    return out


def elaborate(stub):
    seed = stub['seed']
    r = stream(seed, 'class')
    x = r.random()
    cls = 'hist' if x < 0.72 else ('stale' if x < 0.80 else ('cross' if x < 0.97 else 'repeat'))
    if stub.get('tier') == 'thorough' and x >= 0.93:
        cls = 'repeat'
    if cls == 'hist':
        be = r.choice(BACKENDS)
        n = r.randint(2, 14)
        ops = [{'kind': 'first', 'call': r.choice(['solve', 'linsolve']), 'refresh': True}]
        for _ in range(r.randint(2, 9)):
            kind = r.choice(['same_pattern'] * 3 + ['same_object'] * 3 + ['new_pattern'] * 2 + ['new_size', 'singular', 'singular',
                                                                                                'same_object_singular', 'needs_pivoting'])
            ops.append({'kind': kind, 'call': r.choice(['solve', 'solve', 'linsolve']), 'refresh': r.random() < 0.6})
        return {'property': PROP, 'cls': 'hist', 'seed': seed, 'backend': be, 'n': n, 'ops': ops}
    rng = stream(seed, 'case')
    case = gen.pick_case(rng, include_big=False)
    while not case['stock_events']:
        case = gen.pick_case(rng, include_big=False)
    if cls == 'stale':
        nsteps = 40
        return {'property': PROP, 'cls': 'stale', 'seed': seed, 'case': case['case'], 'backend': r.choice(['klu', 'umfpack']),
                'tstep': r.choice([1 / 30, 1 / 60]), 'tf': 1.4, 'at': sorted({r.randint(1, nsteps) for _ in range(r.choice([1, 2, 3]))})}
    if cls == 'cross':
        a = {'sparselib': 'klu', 'linsolve': 0, 'ipadd': 1, 'method': 'NR'}
        b = dict(a)
        what = r.choice(['sparselib', 'sparselib', 'sparselib', 'linsolve', 'ipadd', 'method', 'all'])
        if what in ('sparselib', 'all'):
            b['sparselib'] = r.choice(['umfpack', 'spsolve'])
        if what in ('linsolve', 'all'):
            b['linsolve'] = 1
        if what in ('ipadd', 'all'):
            b['ipadd'] = 0
        if what in ('method', 'all'):
            b['method'] = r.choice(['dishonest', 'NR'])
        return {'property': PROP, 'cls': 'cross', 'seed': seed, 'case': case['case'], 'a': a, 'b': b, 'what': what,
                'tstep': r.choice([1 / 30, 1 / 60]), 'tf': 1.5, 'eig': r.random() < 0.5,
                'tds_method': r.choice(['trapezoid', 'trapezoid', 'backeuler'])}
    return {'property': PROP, 'cls': 'repeat', 'seed': seed, 'case': case['case'], 'tf': 1.3,
            'sparselib': r.choice(BACKENDS)}


# --------------------------------------------------------------------------------------------
# solver histories
# --------------------------------------------------------------------------------------------

def _rand_pattern(r, n, density=0.35):
    pat = {(i, i) for i in range(n)}
    for i in range(n):
        for j in range(n):
            if i != j and r.random() < density:
                pat.add((i, j))
    return sorted(pat)


def _fill(r, n, pat, singular=False):
    A = np.zeros((n, n))
    for (i, j) in pat:
        A[i, j] = r.uniform(-1, 1)
    for i in range(n):
        A[i, i] = np.sum(np.abs(A[i, :])) + r.uniform(0.5, 2.0)
    if singular:
        k = r.randrange(n)
        for (i, j) in pat:
            if i == k:
                A[i, j] = 0.0      # structurally present, numerically zero row
    return A


def _to_sp(A, pat):
    from kvxopt import spmatrix
    I = [i for (i, j) in pat]
    J = [j for (i, j) in pat]
    Vv = [float(A[i, j]) for (i, j) in pat]
    return spmatrix(Vv, I, J, A.shape, 'd')


def run_hist(plan):
    from andes.linsolvers.solverbase import Solver
    from kvxopt import matrix
    v = []
    probes = {'hist_calls': 0, 'pattern_changed': 0, 'singular_seen': 0, 'recovered_after_singular': 0}
    r = stream(plan['seed'], 'matrices')
    be = plan['backend']
    solver = Solver(sparselib=be)
    n = plan['n']
    pat = _rand_pattern(r, n)
    after_singular = False
    kinds = []
    sp = None
    for oi, op in enumerate(plan['ops']):
        kind = op['kind']
        singular = False
        if kind == 'new_pattern':
            pat = _rand_pattern(r, n, density=r.choice([0.15, 0.3, 0.6]))
            probes['pattern_changed'] += 1
        elif kind == 'new_size':
            n = max(2, n + r.choice([-2, -1, 1, 2, 5]))
            pat = _rand_pattern(r, n)
            probes['pattern_changed'] += 1
        elif kind in ('singular', 'same_object_singular'):
            singular = True
        if kind == 'needs_pivoting':
            # a regular, well-conditioned matrix whose diagonal is tiny: a row-rotated diagonally dominant matrix plus 1e-13 on the
            # diagonal; only a factorisation that pivots solves it
            base = _rand_pattern(r, n, density=r.choice([0.15, 0.3]))
            A0 = _fill(r, n, base)
            A = np.roll(A0, 1, axis=0)
            for i in range(n):
                if A[i, i] == 0.0:
                    A[i, i] = 1e-13
            pat = sorted({(i, j) for i in range(n) for j in range(n) if A[i, j] != 0.0})
            probes['pattern_changed'] += 1
            probes['needs_pivoting'] = probes.get('needs_pivoting', 0) + 1
        else:
            A = _fill(r, n, pat, singular=singular)
        b = np.array([r.uniform(-1, 1) for _ in range(n)])
        if kind.startswith('same_object') and oi > 0:
            # the matrix object of the previous call, values changed in place (what ipadd / ipset accumulation does)
            for (i, j) in pat:
                sp[i, j] = float(A[i, j])
            probes['same_object_calls'] = probes.get('same_object_calls', 0) + 1
        else:
            sp = _to_sp(A, pat)
        if op.get('refresh'):
            # what pflow.py / daeint.py do when the Jacobian was rebuilt
            solver.worker.factorize = True
            solver.worker.new_A = True
        promised = (op['call'] == 'linsolve') or be in ('klu', 'umfpack') or op.get('refresh')
        probes['hist_calls'] += 1
        kinds.append(kind[:3] + ('R' if op.get('refresh') else '') + ('L' if op['call'] == 'linsolve' else ''))
        try:
            with np.errstate(all='ignore'):
                if op['call'] == 'solve':
                    x = solver.solve(sp, matrix(b))
                else:
                    x = solver.linsolve(sp, matrix(b))
            x = np.ravel(np.array(x, dtype=float))
            raised = None
        except Exception as e:
            x, raised = None, type(e).__name__
        if singular:
            probes['singular_seen'] += 1
            after_singular = True
            if promised and raised is None and x is not None and np.all(np.isfinite(x)):
                res = float(np.max(np.abs(A @ x - b)))
                v.append(V('singular_reported', '%s.%s on a singular matrix returned a finite vector (residual %.3g) without any '
                           'failure signal' % (be, op['call'], res), backend=be, call=op['call'], what='finite_result'))
            continue
        if not promised:
            after_singular = False
            continue
        if raised is not None:
            v.append(V('axb', '%s.%s raised %s on a regular matrix (op %d: %s, refresh=%s)' % (be, op['call'], raised, oi, kind, op.get('refresh')),
                       backend=be, call=op['call'], kind=kind, refresh=bool(op.get('refresh')), what='raised'))
            after_singular = False
            continue
        xref = np.linalg.solve(A, b)
        err = float(np.max(np.abs(A @ x - b))) / max(1e-300, float(np.max(np.abs(b)))) if x.shape == b.shape else float('inf')
        if not err <= 1e-9:
            v.append(V('axb', '%s.%s returned x with ||Ax-b||/||b|| = %.3g (op %d: %s, refresh=%s, after singular=%s); dense reference '
                       'differs by %.3g' % (be, op['call'], err, oi, kind, op.get('refresh'), after_singular,
                                            float(np.max(np.abs(x - xref))) if x.shape == xref.shape else float('nan')),
                       backend=be, call=op['call'], kind=kind, refresh=bool(op.get('refresh')), after_singular=after_singular,
                       what='wrong_solution'))
        elif after_singular:
            probes['recovered_after_singular'] += 1
        after_singular = False
    return v, probes, [be, kinds]


# --------------------------------------------------------------------------------------------
# in-run: stale factor, cross options
# --------------------------------------------------------------------------------------------

def _opts_to_knobs(o, tstep, tds_method='trapezoid'):
    return {'TDS.sparselib': o['sparselib'], 'PFlow.sparselib': o['sparselib'], 'EIG.sparselib': o['sparselib'],
            'TDS.linsolve': o['linsolve'], 'PFlow.linsolve': o['linsolve'], 'System.ipadd': o['ipadd'], 'PFlow.method': o['method'],
            'TDS.tol': 1e-10, 'PFlow.tol': 1e-10, 'TDS.tstep': tstep, 'TDS.method': tds_method}


class PatternTap:
    """Sparsity pattern of fx/fy/gx/gy must be constant over all Jacobian updates of a run."""

    def __init__(self, ss):
        self.ss = ss
        self.orig = ss.j_update
        self.ref = None
        self.changes = 0
        self.calls = 0

        def j_update(models, info=None):
            r = self.orig(models, info=info)
            self.calls += 1
            dae = ss.dae
            sig = tuple((name, dae.__dict__[name].size, bytes(np.array(dae.__dict__[name].I).astype(np.int64)),
                         bytes(np.array(dae.__dict__[name].J).astype(np.int64))) for name in ('fx', 'fy', 'gx', 'gy'))
            if ss.TDS.initialized:
                if self.ref is None:
                    self.ref = sig
                elif sig != self.ref:
                    self.changes += 1
            return r
        ss.j_update = j_update


def run_config(plan, knobs, with_eig=False, faults=None):
    p = {'case': plan['case'], 'knobs': knobs, 'channels': {}, 'events': [], 'disable_stock_events': False,
         'segments': [plan['tf']], 'seed': plan['seed'], 'faults': faults or []}
    hist = tdssim.new_hist()
    np.random.seed(core.H(plan['seed'], 'numpy') % (2 ** 32))    # Alter devices with rand=1 draw from the global RNG
    ss, _ = tdssim.build(p)
    hist['violations'].extend(tdssim.check_config(ss, knobs))
    pt = PatternTap(ss)
    pf = ss.PFlow.run()
    out = {'pf': bool(pf), 'ss': ss, 'hist': hist, 'pt': pt}
    if not pf:
        return out
    out['pf_y'] = ss.PFlow.y_sol.copy()
    if with_eig:
        try:
            ok = ss.EIG.run()
            out['mu'] = np.array(ss.EIG.mu).copy() if ok else None
            if ok:
                from kvxopt import matrix as _m
                out['As'] = np.array(_m(ss.EIG.As))
                out['cond_gy'] = float(np.linalg.cond(np.array(_m(ss.dae.gy)), 1)) if ss.dae.m <= 1500 else float('nan')
        except Exception as e:
            out['eig_exc'] = repr(e)[:200]
    taps = tdssim.Taps(hist, faults=tdssim.solver_fault_map(p), persist=False, check_mirror=False).install(ss)
    ss.TDS.config.tf = plan['tf']
    ret = ss.TDS.run()
    hist['segments'].append({'tf': plan['tf'], 'ret': bool(ret), 't_start': 0.0, 't_end': float(ss.dae.t), 'busted': bool(ss.TDS.busted),
                             'exit_code': int(ss.exit_code), 'n_attempts': hist['n_attempts']})
    taps.remove()
    out['ret'] = bool(ret)
    hist['violations'].extend(tdssim.o_solver_axb(hist))
    return out


def rel(a, b):
    return float(np.max(np.abs(a - b) / (1.0 + np.abs(a)))) if a.size else 0.0


def spectrum_distance(ma, mb):
    """Relative distance between two spectra as multisets (greedy nearest matching; order-free)."""
    ma = np.array(ma, dtype=complex)
    mb = np.array(mb, dtype=complex)
    if ma.shape != mb.shape:
        return float('inf')
    ma = ma[np.isfinite(ma)]
    mb = list(mb[np.isfinite(mb)])
    if len(ma) != len(mb):
        return float('inf')
    worst = 0.0
    for m in sorted(ma, key=lambda z: -abs(z)):
        d = [abs(m - z) for z in mb]
        j = int(np.argmin(d))
        worst = max(worst, d[j] / (1.0 + abs(m)))
        mb.pop(j)
    return worst


def run_stale(plan):
    v, probes = [], {}
    knobs = _opts_to_knobs({'sparselib': plan['backend'], 'linsolve': 0, 'ipadd': 1, 'method': 'NR'}, plan['tstep'])
    knobs.pop('TDS.tol'), knobs.pop('PFlow.tol')
    a = run_config(plan, knobs)
    b = run_config(plan, knobs, faults=[{'seam': 'solver', 'kind': 'stale', 'at_attempt': k} for k in plan['at']])
    if not (a['pf'] and b['pf']):
        return v, probes, [plan['case'], 'pf-failed'], None
    fired = b['hist']['faults_fired'].get('stale_symbolic', 0)
    probes['refactor_path_taken'] = fired
    ta = [(r['t'], r['x'], r['y']) for r in a['hist']['store_log']]
    tb = [(r['t'], r['x'], r['y']) for r in b['hist']['store_log']]
    same = len(ta) == len(tb) and all(x[0] == y[0] and np.array_equal(x[1], y[1]) and np.array_equal(x[2], y[2])
                                      for x, y in zip(ta, tb))
    if fired and not same:
        d = max([rel(x[1], y[1]) for x, y in zip(ta, tb) if x[1].shape == y[1].shape] + [0.0])
        v.append(V('stale_factor', 'after an injected stale symbolic factor (%s, attempts %s) the trajectory differs from the fault-free '
                   'twin (rows %d vs %d, max rel diff %.3g, ret %s vs %s)' % (plan['backend'], plan['at'], len(tb), len(ta), d,
                                                                              b.get('ret'), a.get('ret')),
                   backend=plan['backend'], what='trajectory'))
    for o in (a, b):
        if o['pt'].changes:
            v.append(V('pattern', 'Jacobian sparsity pattern changed %d times between updates' % o['pt'].changes, what='changed'))
    return v, probes, [plan['case'], plan['backend'], len(plan['at'])], b['hist']


def _transplant_As(plan, ka, kb):
    """max |As_a - As_b| with configuration b evaluated at configuration a's operating point (same bits)."""
    from kvxopt import matrix as _m
    try:
        out = []
        xy = None
        for kn in (ka, kb):
            p = {'case': plan['case'], 'knobs': kn, 'channels': {}, 'events': [], 'disable_stock_events': False,
                 'segments': [plan['tf']], 'seed': plan['seed'], 'faults': []}
            np.random.seed(core.H(plan['seed'], 'numpy') % (2 ** 32))
            ss, _ = tdssim.build(p)
            if not ss.PFlow.run() or not ss.EIG.run():
                return None
            if xy is None:
                xy = (ss.dae.x.copy(), ss.dae.y.copy())
            else:
                ss.dae.x[:] = xy[0]
                ss.dae.y[:] = xy[1]
                ss.vars_to_models()
                if not ss.EIG.run():
                    return None
            out.append(np.array(_m(ss.EIG.As)))
        return float(np.max(np.abs(out[0] - out[1])))
    except Exception:
        return None


def run_cross(plan):
    v, probes = [], {}
    ka = _opts_to_knobs(plan['a'], plan['tstep'], plan.get('tds_method', 'trapezoid'))
    kb = _opts_to_knobs(plan['b'], plan['tstep'], plan.get('tds_method', 'trapezoid'))
    a = run_config(plan, ka, with_eig=plan.get('eig'))
    b = run_config(plan, kb, with_eig=plan.get('eig'))
    v += a['hist']['violations'] + b['hist']['violations']
    probes['ipadd0'] = int(plan['b']['ipadd'] == 0)
    probes['linsolve1'] = int(plan['b']['linsolve'] == 1)
    desc = '%s vs %s' % (json.dumps(plan['a'], sort_keys=True), json.dumps(plan['b'], sort_keys=True))
    if a['pf'] != b['pf']:
        v.append(V('cross_option', 'power flow converges under one configuration only (%s): %s / %s' % (desc, a['pf'], b['pf']),
                   what='pf_flag', diff=plan['what']))
        return v, probes, [plan['case'], plan['what']], a['hist']
    if not a['pf']:
        return v, probes, [plan['case'], 'pf-failed'], a['hist']
    d = float(np.max(np.abs(a['pf_y'] - b['pf_y'])))
    if d > 1e-9:
        v.append(V('cross_option', 'power-flow solutions differ by %.3g (%s)' % (d, desc), what='pf', diff=plan['what']))
    if plan.get('eig') and a.get('mu') is not None and b.get('mu') is not None:
        # the well-posed object is the state matrix; eigenvalues of a (nearly) defective matrix move by eps**(1/k) under rounding
        # (kundur_reg: kappa(V) = 8e18, As equal to 1e-12, eigenvalues differ in the second digit), so the spectra are compared
        # only where the Bauer-Fike bound kappa(V) * ||dAs|| says rounding cannot separate them
        Aa, Ab = a.get('As'), b.get('As')
        eps = np.finfo(float).eps
        if Aa is not None and Ab is not None and Aa.shape == Ab.shape:
            cg = a.get('cond_gy')
            tolA = max(1e-6, 50 * eps * cg if np.isfinite(cg) else 1e-6) * (1.0 + float(np.max(np.abs(Aa))))
            dA = float(np.max(np.abs(Aa - Ab)))
            if not dA <= tolA:
                # discriminate "the option changes the linearisation" from "the two operating points, equal to rounding, lie on
                # different sides of a break point of a piecewise characteristic" (kundur_reg: PV set point 1.0 == REGCA1.Lvpnt1):
                # evaluate configuration b at configuration a's operating point, bit for bit
                dT = _transplant_As(plan, ka, kb)
                if dT is not None and dT <= tolA:
                    probes['eig_breakpoint_tie'] = 1
                    Ab = Aa
                else:
                    v.append(V('cross_option', 'state matrices differ by %.3g (allowed %.3g; %s at the bit-identical operating point) '
                               'between configurations (%s)' % (dA, tolA, 'n/a' if dT is None else '%.3g' % dT, desc),
                               what='eig_As', diff=plan['what']))
            try:
                kV = float(np.linalg.cond(np.linalg.eig(Aa)[1]))
            except np.linalg.LinAlgError:
                kV = float('inf')
            well = kV * max(np.linalg.norm(Aa - Ab, 2), eps * np.linalg.norm(Aa, 2)) <= 1e-7 * (1.0 + float(np.max(np.abs(a['mu']))))
            if probes.get('eig_breakpoint_tie'):
                well = False          # the two spectra belong to different branches
            probes['eig_illconditioned'] = int(not well)
        else:
            well = Aa is None and Ab is None
            if not well:
                v.append(V('cross_option', 'state matrix has different shapes between configurations (%s)' % desc, what='eig_As',
                           diff=plan['what']))
        if well and spectrum_distance(a['mu'], b['mu']) > 1e-6:
            v.append(V('cross_option', 'eigenvalues differ between configurations (%s)' % desc, what='eig', diff=plan['what']))
        probes['eig_compared'] = 1
    elif plan.get('eig') and (a.get('eig_exc') or b.get('eig_exc')) and bool(a.get('eig_exc')) != bool(b.get('eig_exc')):
        v.append(V('cross_option', 'EIG raises under one configuration only: %s / %s' % (a.get('eig_exc'), b.get('eig_exc')),
                   what='eig_exc', diff=plan['what']))
    if a.get('ret') != b.get('ret'):
        v.append(V('cross_option', 'TDS.run() returns %s vs %s (%s)' % (a.get('ret'), b.get('ret'), desc), what='tds_flag',
                   diff=plan['what']))
    elif a.get('ret'):
        sa, sb = a['ss'], b['ss']
        mask = sa.dae.Tf != 0
        dx = rel(sa.dae.x[mask], sb.dae.x[mask]) if sa.dae.x.shape == sb.dae.x.shape else float('inf')
        dy = rel(sa.dae.y, sb.dae.y) if sa.dae.y.shape == sb.dae.y.shape else float('inf')
        probes['cross_compared'] = 1
        if max(dx, dy) > 1e-6:
            # discrete switching (limiters, dead-bands) can move by one step under rounding-level differences: bound the
            # difference by a step-halving estimate of configuration a itself before calling it a violation
            za = [r['z'] for r in a['hist']['attempts'] if r['converged']]
            zb = [r['z'] for r in b['hist']['attempts'] if r['converged']]
            same_switching = len(za) == len(zb) and all(np.array_equal(p_, q_) for p_, q_ in zip(za, zb))
            bound = 1e-6
            if not same_switching:
                half = dict(plan, tstep=plan['tstep'] / 2)
                c = run_config(half, _opts_to_knobs(plan['a'], half['tstep'], plan.get('tds_method', 'trapezoid')))
                if c.get('ret'):
                    est = max(rel(sa.dae.x[mask], c['ss'].dae.x[mask]), rel(sa.dae.y, c['ss'].dae.y))
                    bound = 3 * est + 1e-6
                    probes['cross_estimate_used'] = 1
                else:
                    bound = float('inf')
                if max(dx, dy) > bound and np.isfinite(bound):
                    # second calibration: the same configuration a with a rounding-level perturbation of its own (Newton
                    # tolerance 1e-9 instead of 1e-10).  If that alone moves the final state as much, the case switches on a
                    # knife edge and the difference says nothing about the option.
                    ka2 = dict(_opts_to_knobs(plan['a'], plan['tstep'], plan.get('tds_method', 'trapezoid')), **{'TDS.tol': 1e-9})
                    c2 = run_config(plan, ka2)
                    if c2.get('ret'):
                        sens = max(rel(sa.dae.x[mask], c2['ss'].dae.x[mask]), rel(sa.dae.y, c2['ss'].dae.y))
                        probes['cross_sensitivity_used'] = 1
                        if sens > 1e-6:
                            bound = max(bound, 3 * sens)
            if max(dx, dy) > bound:
                v.append(V('cross_option', 'final states differ by %.3g (relative, bound %.3g) between configurations (%s)' %
                           (max(dx, dy), bound, desc), what='trajectory', diff=plan['what'], same_switching=same_switching))
    for o in (a, b):
        if o['pt'].changes:
            v.append(V('pattern', 'Jacobian sparsity pattern changed %d times between updates' % o['pt'].changes, what='changed'))
    return v, probes, [plan['case'], plan['what'], plan['b']['sparselib'], bool(plan.get('eig'))], a['hist']


REPEAT_CODE = r'''
import sys, json, hashlib, logging
logging.disable(logging.CRITICAL)
import numpy as np, andes
ss = andes.load(sys.argv[1], no_output=True, default_config=True, config_option=["TDS.sparselib=%s" % sys.argv[3], "PFlow.sparselib=%s" % sys.argv[3], "TDS.no_tqdm=1", "System.seed=20260923"], autogen_stale=False)
ss.PFlow.run()
ss.TDS.config.tf = float(sys.argv[2])
ss.TDS.run()
h = hashlib.sha256()
h.update(np.ascontiguousarray(ss.PFlow.y_sol).tobytes())
h.update(np.ascontiguousarray(ss.dae.ts.txyz).tobytes())
print("DIGEST", h.hexdigest())
'''


def run_repeat(plan):
    v, probes = [], {}
    digs = []
    from dst.world import case_path
    for hs in ('1', '4242'):
        env = dict(os.environ, PYTHONHASHSEED=hs)
        r = subprocess.run([core.PY, '-c', REPEAT_CODE, case_path(plan['case']), str(plan['tf']), plan['sparselib']], env=env,
                           stdout=subprocess.PIPE, stderr=subprocess.DEVNULL, timeout=150)
        m = [ln for ln in r.stdout.decode(errors='replace').splitlines() if ln.startswith('DIGEST')]
        digs.append(m[-1].split()[1] if m else 'exit-%d' % r.returncode)
    probes['repeat_compared'] = 1
    if digs[0] != digs[1]:
        v.append(V('repetition', 'two fresh interpreters (PYTHONHASHSEED 1 / 4242) give different results: %s vs %s' % tuple(digs),
                   what='digest', sparselib=plan['sparselib']))
    return v, probes, [plan['case'], plan['sparselib']], None


def execute(plan):
    if plan.get('stub'):
        plan = elaborate(plan)
    res = {'plan': plan}
    hist = None
    try:
        cls = plan['cls']
        if cls == 'hist':
            v, probes, sig = run_hist(plan)
        elif cls == 'stale':
            v, probes, sig, hist = run_stale(plan)
        elif cls == 'cross':
            v, probes, sig, hist = run_cross(plan)
        else:
            v, probes, sig, hist = run_repeat(plan)
        res['violations'] = v
        res['probes'] = probes
        res['sig'] = json.dumps([cls] + sig, default=str)
        res['nontrivial'] = bool(probes.get('pattern_changed') or probes.get('singular_seen') or probes.get('refactor_path_taken')
                                 or probes.get('cross_compared') or probes.get('repeat_compared') or probes.get('hist_calls', 0) > 2)
        res['faults'] = {}
        if probes.get('refactor_path_taken'):
            res['faults']['stale_symbolic'] = probes['refactor_path_taken']
        if probes.get('singular_seen'):
            res['faults']['singular_matrix'] = probes['singular_seen']
        res['sim_seconds'] = (2 * plan['tf']) if cls in ('stale', 'cross', 'repeat') else 0.0
        res['steps'] = hist['n_attempts'] if hist else 0
        d = core.Digest()
        d.add(res['sig'], sorted(core.vclass(x) for x in v), sorted(probes.items()))
        res['digest'] = d.hex()
    finally:
        pass
    return res


def simplify(plan):
    if plan.get('cls') == 'hist':
        for i, op in enumerate(plan['ops']):
            if op['call'] != 'solve':
                q = json.loads(json.dumps(plan))
                q['ops'][i]['call'] = 'solve'
                yield q
        if plan['n'] > 3:
            q = json.loads(json.dumps(plan))
            q['n'] = 3
            yield q
