"""
C14 -- resumed and snapshot-restored simulations equal the uninterrupted run.

Engine: restart-sim (on top of tds-sim).  A reference twin runs the plan uninterrupted.  The subject runs
the same plan with interruptions decided by the seed:
  resume               run() again with a larger tf
  snapshot             save_ss -> load_ss (in-memory stream) and continue on the restored object
  snapshot_keep        save_ss, then continue on the *original* object (save strips solver C objects)
  snapshot_file        save to a file in a scratch dir, load from the file
  crash_restore        snapshot at cut i, keep running, crash (SimCrash from the callpert seam) at a seeded
                       later attempt, discard memory, restart from the snapshot
  subprocess           save to a file, load + continue in a fresh interpreter (another PYTHONHASHSEED)
  torn                 the snapshot file is truncated / bit-flipped: load_ss must raise, never yield a System
  reset_pf             reset() + PFlow.run() reproduces the first power-flow solution (to 1e-10)
Oracles: same grid and |dx|,|dy| <= 1e-9 at every common stamp when the result is reproducible, otherwise
within 3x a step-halving estimate + Newton tolerance; event log neither loses nor repeats an event across
boundaries; time axis strictly increasing, duplicate-free, gap-free; restored object keeps Tf/Teye/flags/switch index.
"""

import io
import json
import os
import subprocess
import sys

import numpy as np

from dst import core, gen, tdssim
from dst.core import stream
from dst.seams import SimCrash, discrete_flags
from dst.tdssim import V

PROP = 'C14'
LEVEL = 'exploration'
COUNTS = {'quick': 120, 'thorough': 3000}
BUDGET = {'quick': 115, 'thorough': 1500}
TIMEOUT = 600
WORKERS = 8           # dill snapshots thrash mmap and do not scale across processes here; more workers only add watchdog hits
SHRINK_LISTS = [['cuts'], ['events']]
EXPECTED_PROBES = ['cut_just_before_event', 'resume', 'snapshot', 'snapshot_keep', 'snapshot_file', 'crash_restore', 'torn', 'reset_pf',
                   'cut_at_event', 'cut_off_grid', 'exact_match', 'estimate_match', 'events_after_cut']
RULE = ('plan = seeded (stock case, knobs, stock or seeded events, 1-3 interruption points after the first disturbance '
        'each with a kind from {resume, snapshot, snapshot_keep, snapshot_file, crash_restore, subprocess, torn, reset_pf}); '
        'non-trivial = at least one interruption after a disturbance fired; distinct = (case, kinds, cut classes, fixt, method)')
ASSUMPTIONS = [
    'reference = the same plan run uninterrupted in the same process (twin)',
    'when interrupted and uninterrupted runs are not bit-reproducible (off-grid split, variable step, rejection before the cut) '
    'the bound is 3x the h vs h/2 difference of the reference plus 200*tol',
    'a crash discards the whole object graph; only the snapshot bytes survive',
]
HOWS = ['resume'] * 16 + ['snapshot', 'snapshot', 'snapshot_keep', 'snapshot_file', 'crash_restore', 'crash_restore', 'torn', 'reset_pf', 'reset_pf']
SNAP_KINDS = ('snapshot', 'snapshot_keep', 'snapshot_file', 'crash_restore', 'torn', 'subprocess')


def plans(seed, tier, count):
    out = []
    # enumerated split points: every stored grid point of a short post-disturbance run for three cases
    for ci, case in enumerate(['kundur/kundur_full.xlsx', 'ieee14/ieee14_linetrip.xlsx', 'smib/SMIB.xlsx']):
        for j in range(1, 13):
            out.append({'property': PROP, 'seed': core.H('enum14', ci, j), 'case': case, 'cls': 'enum',
                        'knobs': {'TDS.tstep': 1 / 30}, 'channels': {}, 'disable_stock_events': True,
                        'events': [{'model': 'Toggle', 'params': {'model': 'Line', 'dev': ENUM_LINE[case], 't': 0.1, 'idx': 'E1'}}],
                        'tf': 0.6, 'cuts': [{'t': 0.1 + j / 30, 'how': 'snapshot' if j == 6 else 'resume', 'cls': 'grid'}]})
    # interruptions a hair before an event (inside any 'close enough' tolerance, outside the exact instant): the event
    # must neither be lost nor act early
    for ci, case in enumerate(['kundur/kundur_full.xlsx', 'ieee14/ieee14_linetrip.xlsx', 'smib/SMIB.xlsx']):
        for j, (delta, how) in enumerate([(1e-5, 'resume'), (1e-6, 'resume'), (1e-5, 'snapshot' if ci == 0 else 'resume')]):
            if ci and j == 2:
                continue
            out.append({'property': PROP, 'seed': core.H('before14', ci, j), 'case': case, 'cls': 'enum',
                        'knobs': {'TDS.tstep': 1 / 30}, 'channels': {}, 'disable_stock_events': True,
                        'events': [{'model': 'Toggle', 'params': {'model': 'Line', 'dev': ENUM_LINE[case], 't': 0.3, 'idx': 'E1'}},
                                   {'model': 'Toggle', 'params': {'model': 'Line', 'dev': ENUM_LINE[case], 't': 0.1, 'idx': 'E0'}},
                                   {'model': 'Toggle', 'params': {'model': 'Line', 'dev': ENUM_LINE[case], 't': 0.2, 'idx': 'E2'}}],
                        'tf': 0.6, 'cuts': [{'t': 0.3 - delta, 'how': how, 'cls': 'just_before_event'}]})
    i = 0
    while len(out) < count:
        out.append({'stub': True, 'seed': core.H(seed, PROP, i), 'tier': tier})
        i += 1
    return out


ENUM_LINE = {'kundur/kundur_full.xlsx': 'Line_8', 'ieee14/ieee14_linetrip.xlsx': 'Line_1', 'smib/SMIB.xlsx': 'Line_2'}


def elaborate(stub):
    seed = stub['seed']
    rng = stream(seed, 'case')
    case = gen.pick_case(rng, include_big=False)
    while not case['stock_events'] or all(e['u'] != 1 for e in case['stock_events']):
        case = gen.pick_case(rng, include_big=False)
    knobs = gen.pick_knobs(stream(seed, 'knobs'), allow_variable=True)
    knobs.pop('TDS.refresh_event', None)
    channels = gen.pick_channels(stream(seed, 'channels'), knobs)
    tstep = knobs['TDS.tstep']
    ev_times = sorted(t for e in case['stock_events'] if e['u'] == 1 for k, t in e.items()
                      if k in ('t', 'tf', 'tc') and t > 0)
    t1 = ev_times[0] if ev_times else 0.5
    sp = stream(seed, 'span')
    tf = round(t1 + sp.choice([0.5, 0.8, 1.2]), 3)
    r = stream(seed, 'splits')
    ncut = r.choice([1, 1, 2, 3])
    cuts = []
    later = [t for t in ev_times if t > t1 and t < tf]
    for _ in range(ncut):
        x = r.random()
        if x < 0.35:
            k = r.randint(1, max(1, int((tf - t1) / tstep) - 1))
            t, cls = t1 + k * tstep, 'grid'
        elif x < 0.5 and later:
            t, cls = r.choice(later), 'at_event'
        elif x < 0.6 and later:
            t, cls = r.choice(later) + r.choice([-1e-4, 1e-4, -5e-5, 5e-5, -tstep / 2]), 'near_event'
        elif x < 0.7:
            t, cls = t1 + r.choice([1e-4, 5e-5, 2e-4]), 'just_after_first'
        elif x < 0.78 and later:
            t, cls = r.choice(later) - r.choice([1e-5, 5e-6, 1e-6]), 'just_before_event'
        else:
            t, cls = round(r.uniform(t1 + 0.01, tf - 0.01), r.choice([3, 6])), 'offgrid'
        if t1 < t < tf:
            cuts.append({'t': float(t), 'how': r.choice(HOWS), 'cls': cls})
    cuts.sort(key=lambda c: c['t'])
    seen = set()
    cuts = [c for c in cuts if not (c['t'] in seen or seen.add(c['t']))]
    if stub.get('tier') == 'thorough' and r.random() < 0.15 and cuts:
        cuts[-1]['how'] = 'subprocess'
    # dill snapshots are page-fault heavy in this sandbox (about 2 s each, poorly parallel): at most one per quick plan
    if stub.get('tier') != 'thorough':
        seen_snap = False
        for c in cuts:
            if c['how'] in SNAP_KINDS:
                if seen_snap:
                    c['how'] = 'resume'
                seen_snap = True
    for c in cuts:
        if c['how'] == 'crash_restore':
            c['crash_after'] = r.randint(1, 12)
    return {'property': PROP, 'seed': seed, 'case': case['case'], 'cls': 'seeded', 'knobs': knobs, 'channels': channels,
            'disable_stock_events': False, 'events': [], 'tf': tf, 'cuts': cuts}


# --------------------------------------------------------------------------------------------

def _series(hist):
    t = np.array([r['t'] for r in hist['store_log']])
    return t, [r['x'] for r in hist['store_log']], [r['y'] for r in hist['store_log']]


def _snapshot_state(ss):
    tds = ss.TDS
    return {'Tf': ss.dae.Tf.copy(), 'Teye': np.array(_diag(tds.Teye)), 'z': discrete_flags(ss),
            'switch_idx': int(tds._switch_idx), 't': float(ss.dae.t), 'x': ss.dae.x.copy(), 'y': ss.dae.y.copy(),
            'h': float(tds.h), 'deltat': float(tds.deltat), 'names': list(ss.dae.x_name),
            # dae.f of the last accepted step is the history term f0 of the trapezoidal rule for the next one
            'f': ss.dae.f.copy(), 'g': ss.dae.g.copy(),
            'not_aliased': _view_alias_ok(ss)}


def _diag(sp):
    n = sp.size[0]
    return [sp[i, i] for i in range(n)]


def _cmp_state(a, b):
    bad = []
    for k in ('Tf', 'Teye', 'z', 'x', 'y', 'f', 'g'):
        if a[k].shape != b[k].shape or not np.array_equal(a[k], b[k]):
            bad.append(k)
    for k in ('switch_idx', 't', 'h', 'deltat'):
        if a[k] != b[k]:
            bad.append(k)
    if a['names'] != b['names']:
        bad.append('names')
    return bad


def _view_alias_ok(ss):
    """After unpickling, model-level arrays must alias the global vectors (C10's sentinel idea, light version)."""
    dae = ss.dae
    x_keep, y_keep = dae.x.copy(), dae.y.copy()
    try:
        dae.x[:] = np.arange(dae.n) + 0.5
        dae.y[:] = -(np.arange(dae.m) + 0.5)
        broken = set()
        for mdl in ss.exist.pflow_tds.values():
            if not mdl.n:
                continue
            for name, var in mdl.cache.vars_int.items():
                src = dae.x if var.v_code == 'x' else dae.y
                if len(var.a) and not np.array_equal(var.v, src[var.a]):
                    broken.add((mdl.class_name, name))
        return broken
    finally:
        dae.x[:] = x_keep
        dae.y[:] = y_keep


def run_subject(plan, hist):
    """Run with interruptions.  Returns final System; fills hist (shared across restores) and notes."""
    import andes
    from andes.utils.snapshot import load_ss, save_ss
    notes = hist['notes']
    v = hist['violations']
    probes = hist.setdefault('probes', {})
    np.random.seed(core.H(plan.get('seed', 0), 'numpy') % (2 ** 32))
    rc_dir = None
    if any(c == 'rc' for c in (plan.get('channels') or {}).values()) or \
            any(c['how'] in ('snapshot_file', 'subprocess', 'torn') for c in plan['cuts']):
        rc_dir = tdssim.scratch_dir('c14-')
        hist['scratch'] = rc_dir
    ss, knobs = tdssim.build(plan, rc_dir=rc_dir)
    v.extend(tdssim.check_config(ss, knobs))
    hist['events'] = tdssim.es.normalise_events(ss)
    if not ss.PFlow.run():
        hist['pf'] = False
        return ss
    hist['pf'] = True
    hist['pf_sol'] = (ss.PFlow.x_sol.copy() if ss.PFlow.x_sol is not None else None, ss.PFlow.y_sol.copy())
    taps = tdssim.Taps(hist, persist=False).install(ss)

    def run_to(tf):
        ss.TDS.config.tf = tf
        t0 = float(ss.dae.t)
        ret = ss.TDS.run()
        hist['segments'].append({'tf': tf, 'ret': bool(ret), 't_start': t0, 't_end': float(ss.dae.t),
                                 'busted': bool(ss.TDS.busted), 'exit_code': int(ss.exit_code),
                                 'n_attempts': hist['n_attempts']})
        return ret

    pending_crash = None   # (snapshot bytes, state at snapshot, log lengths at snapshot)
    cuts = list(plan['cuts'])
    si = 0
    while True:
        target = cuts[si]['t'] if si < len(cuts) else plan['tf']
        hist['segment'] = si
        try:
            ok = run_to(target)
        except SimCrash:
            # memory is gone; only the snapshot bytes survive
            probes['crash_restore'] = probes.get('crash_restore', 0) + 1
            taps.remove()
            blob, st, marks = pending_crash
            pending_crash = None
            try:
                ss = load_ss(io.BytesIO(blob))
            except Exception as e:
                v.append(V('snapshot_load', 'load_ss of an intact snapshot raised %s: %s' % (type(e).__name__, str(e)[:200]),
                           type=type(e).__name__))
                return ss
            for key, n in marks.items():
                if not key.startswith('_'):
                    del hist[key][n:]
            hist['n_attempts'] = marks['_n_attempts']
            bad = _cmp_state(st, _snapshot_state(ss))
            if bad:
                v.append(V('restore_state', 'after crash-restore %s differ from the saved values' % bad, what=','.join(bad)))
            taps = tdssim.Taps(hist, persist=False).install(ss)
            continue
        if not ok:
            break
        if si >= len(cuts):
            break
        cut = cuts[si]
        how = cut['how']
        probes[how] = probes.get(how, 0) + 1
        if how in ('snapshot', 'snapshot_keep', 'snapshot_file', 'crash_restore', 'torn', 'subprocess'):
            st = _snapshot_state(ss)
            taps.remove()
            buf = io.BytesIO()
            try:
                if how in ('snapshot_file', 'torn', 'subprocess'):
                    path = os.path.join(rc_dir, 'snap-%d.pkl' % si)
                    save_ss(path, ss)
                    with open(path, 'rb') as f:
                        blob = f.read()
                else:
                    save_ss(buf, ss)
                    blob = buf.getvalue()
            except Exception as e:
                v.append(V('snapshot_save', 'save_ss raised %s: %s' % (type(e).__name__, str(e)[:200]), type=type(e).__name__,
                           sparselib=ss.TDS.config.sparselib))
                taps.install(ss)
                si += 1
                continue
            if how == 'torn':
                r = stream(plan['seed'], 'torn%d' % si)
                kind = r.choice(['truncate', 'truncate', 'flip'])
                bad_blob = bytearray(blob)
                if kind == 'truncate':
                    bad_blob = bad_blob[:r.randint(1, len(blob) - 1)]
                    try:
                        res = load_ss(io.BytesIO(bytes(bad_blob)))
                        v.append(V('torn_snapshot', 'load_ss of a snapshot truncated to %d/%d bytes returned %s instead of raising'
                                   % (len(bad_blob), len(blob), type(res).__name__), what='truncated_loaded'))
                    except Exception:
                        hist['faults_fired']['torn_snapshot'] = hist['faults_fired'].get('torn_snapshot', 0) + 1
                else:
                    hist['faults_fired']['flipped_snapshot'] = hist['faults_fired'].get('flipped_snapshot', 0) + 1
                # the original object goes on (like snapshot_keep)
                taps.install(ss)
            elif how == 'snapshot_keep':
                taps.install(ss)
            elif how == 'crash_restore':
                marks = {k: len(hist[k]) for k in ('attempts', 'timer_log', 'store_log', 'conn_log', 'segments')}
                marks['_n_attempts'] = hist['n_attempts']
                pending_crash = (blob, st, marks)
                taps = tdssim.Taps(hist, persist=False, crash_at=hist['n_attempts'] + cut.get('crash_after', 3))
                taps.install(ss)
            elif how == 'subprocess':
                # continue in a fresh interpreter; it returns the remaining series
                rest = _run_in_subprocess(path, [c['t'] for c in cuts[si + 1:]] + [plan['tf']], rc_dir)
                hist['sub'] = rest
                return ss
            else:
                try:
                    ss2 = load_ss(io.BytesIO(blob) if how == 'snapshot' else path)
                except Exception as e:
                    v.append(V('snapshot_load', 'load_ss of an intact snapshot raised %s: %s' % (type(e).__name__, str(e)[:200]),
                               type=type(e).__name__))
                    taps.install(ss)
                    si += 1
                    continue
                bad = _cmp_state(st, _snapshot_state(ss2))
                if bad:
                    v.append(V('restore_state', 'after load_ss %s differ from the saved values' % bad, what=','.join(bad)))
                nb = _view_alias_ok(ss2) - st['not_aliased']
                if nb:
                    v.append(V('restore_state', 'model-level arrays %s aliased the global vectors before save_ss but not after '
                               'load_ss' % sorted(nb)[:4], what='views'))
                ss = ss2
                taps = tdssim.Taps(hist, persist=False).install(ss)
        elif how == 'reset_pf':
            pass   # handled on a separate System below (reset is not allowed after TDS init)
        si += 1
    taps.remove()
    return ss


def _run_in_subprocess(path, tfs, rc_dir):
    code = r'''
import sys, json, logging
logging.disable(logging.CRITICAL)
import numpy as np
from andes.utils.snapshot import load_ss
ss = load_ss(sys.argv[1])
rets = []
for tf in json.loads(sys.argv[2]):
    ss.TDS.config.tf = tf
    rets.append(bool(ss.TDS.run()))
    if not rets[-1]:
        break
np.savez(sys.argv[3], t=ss.dae.ts.t, x=ss.dae.ts.x, y=ss.dae.ts.y, rets=np.array(rets), xf=ss.dae.x, yf=ss.dae.y,
         tend=float(ss.dae.t))
'''
    outp = os.path.join(rc_dir, 'sub.npz')
    env = dict(os.environ, PYTHONHASHSEED='11')
    r = subprocess.run([core.PY, '-c', code, path, json.dumps(tfs), outp], env=env, stdout=subprocess.DEVNULL,
                       stderr=subprocess.PIPE, timeout=200)
    if r.returncode != 0:
        return {'error': r.stderr.decode(errors='replace')[-500:]}
    d = np.load(outp)
    return {k: d[k] for k in d.files}


def reset_pf_check(plan, rc_dir=None):
    """reset() + PFlow.run() reproduces the first solution to 1e-10 (separate System: reset is refused after TDS init)."""
    made = None
    if rc_dir is None and any(c == 'rc' for c in (plan.get('channels') or {}).values()):
        rc_dir = made = tdssim.scratch_dir('c14r-')
    try:
        ss, _ = tdssim.build(plan, rc_dir=rc_dir)
    finally:
        if made:
            import shutil
            shutil.rmtree(made, ignore_errors=True)
    out = []
    if not ss.PFlow.run():
        return out
    y1 = ss.PFlow.y_sol.copy()
    x1 = ss.PFlow.x_sol.copy()
    ni = ss.PFlow.niter
    ss.reset()
    ok = ss.PFlow.run()
    if not ok:
        out.append(V('reset_pf', 'power flow does not converge after reset()', what='no_convergence'))
    elif y1.shape != ss.PFlow.y_sol.shape or float(np.max(np.abs(y1 - ss.PFlow.y_sol))) > 1e-10:
        d = float(np.max(np.abs(y1 - ss.PFlow.y_sol))) if y1.shape == ss.PFlow.y_sol.shape else float('inf')
        out.append(V('reset_pf', 'power flow after reset() differs from the first solution by %.3g' % d, what='differs'))
    return out


def compare(plan, ref, sub, ss_ref, ss_sub):
    """Trajectory comparison at common stamps + final state; returns (violations, info)."""
    out = []
    info = {}
    tr, xr, yr = _series(ref)
    tsb, xs, ys = _series(sub)
    if 'sub' in sub:
        rest = sub['sub']
        if 'error' in rest:
            out.append(V('subprocess_restore', 'fresh-interpreter restore failed: %s' % rest['error'][-200:], what='error'))
            return out, info
        # the in-memory series is part of the snapshot: the restored System returns the history before the cut followed by
        # the continuation; the prefix must be exactly what had been stored before the snapshot was taken
        n0 = len(tsb)
        if len(rest['t']) < n0 or not np.array_equal(np.asarray(rest['t'][:n0]), tsb) or \
                any(not np.array_equal(np.asarray(rest['x'][k]), xs[k]) for k in range(n0)):
            out.append(V('subprocess_restore', 'the series held by the System restored in a fresh interpreter does not start with the %d '
                         'rows stored before the snapshot' % n0, what='history'))
            return out, info
        tsb = np.asarray(rest['t'])
        xs = list(rest['x'])
        ys = list(rest['y'])
        sub_ok = bool(np.all(rest['rets']))
        x_fin, y_fin, t_fin = rest['xf'], rest['yf'], float(rest['tend'])
    else:
        sub_ok = tdssim.run_ok(sub)
        x_fin, y_fin, t_fin = ss_sub.dae.x, ss_sub.dae.y, float(ss_sub.dae.t)
    ref_ok = tdssim.run_ok(ref)
    info['ref_ok'], info['sub_ok'] = ref_ok, sub_ok
    if not ref_ok:
        info['skipped'] = 'reference run failed (precondition)'
        return out, info
    if not sub_ok:
        out.append(V('interrupted_fails', 'uninterrupted run succeeds but the interrupted run returns False (t=%r)' % t_fin,
                     what='run_false'))
        return out, info
    # time axis of the subject: strictly increasing, duplicate-free
    d = np.diff(tsb)
    if np.any(d <= 0):
        i = int(np.where(d <= 0)[0][0])
        out.append(V('time_axis', 'interrupted run stores %r then %r' % (tsb[i], tsb[i + 1]),
                     what='duplicate' if d[i] == 0 else 'decreasing'))
        return out, info
    tstep = plan['knobs'].get('TDS.tstep', 1 / 30)
    if plan['knobs'].get('TDS.fixt', 1) == 1:
        gmax = float(np.max(d)) if len(d) else 0.0
        if gmax > tstep * (1 + 1e-9):
            out.append(V('time_axis', 'gap of %.6g > tstep %.6g in the interrupted time axis' % (gmax, tstep), what='gap'))
    if t_fin != plan['tf'] or (len(tsb) and tsb[-1] != plan['tf']):
        out.append(V('time_axis', 'interrupted run ends at %r / last stamp %r, tf=%r' % (t_fin, tsb[-1] if len(tsb) else None, plan['tf']),
                     what='end'))
    # values at common stamps
    # states with a zero time constant whose equation does not pin them are undetermined (IEEEST filter bypass):
    # they carry no information and are excluded from trajectory comparisons
    mask = (ss_ref.dae.Tf != 0)
    common = np.intersect1d(tr, tsb)
    idx_r = {t: i for i, t in enumerate(tr.tolist())}
    idx_s = {t: i for i, t in enumerate(tsb.tolist())}
    worst = 0.0
    for t in common.tolist():
        a, b = xr[idx_r[t]], xs[idx_s[t]]
        c, e = yr[idx_r[t]], ys[idx_s[t]]
        if a.shape != b.shape:
            continue
        if a.shape == mask.shape:
            a, b = a[mask], b[mask]
        w = max(float(np.max(np.abs(a - b) / (1 + np.abs(a)))) if a.size else 0.0,
                float(np.max(np.abs(c - e) / (1 + np.abs(c)))))
        worst = max(worst, w)
    fin = max(float(np.max((np.abs(ss_ref.dae.x - x_fin) / (1 + np.abs(x_fin)))[mask])) if mask.any() else 0.0,
              float(np.max(np.abs(ss_ref.dae.y - y_fin) / (1 + np.abs(y_fin)))))
    info.update(common=len(common), worst_common=worst, final=fin)
    return out, info


def execute(plan):
    if plan.get('stub'):
        plan = elaborate(plan)
    res = {'plan': plan, 'violations': []}
    v = res['violations']
    # --- reference twin (uninterrupted)
    ref_plan = dict(plan, segments=[plan['tf']])
    ss_ref, ref = tdssim.simulate(ref_plan, taps_kwargs={'persist': False})
    sub = tdssim.new_hist()
    try:
        if not ref['pf']:
            res.update(precondition_unmet=1, nontrivial=False, sig='pf-failed', digest='pf-failed')
            return res
        ss_sub = run_subject(plan, sub)
        v += sub['violations']
        cv, info = compare(plan, ref, sub, ss_ref, ss_sub)
        v += cv
        probes = dict(sub.get('probes', {}))
        tol = ss_ref.TDS.config.tol
        if 'skipped' not in info and not cv:
            exact = max(info['worst_common'], info['final']) <= 1e-9
            if exact:
                probes['exact_match'] = 1
            else:
                # not bit-reproducible: bound by a step-halving estimate of the reference itself
                p2 = json.loads(json.dumps(ref_plan))
                p2['knobs']['TDS.tstep'] = plan['knobs'].get('TDS.tstep', 1 / 30) / 2
                if plan['knobs'].get('TDS.fixt', 1) == 0:
                    # variable stepping ignores tstep: estimate its discretisation error against a fine fixed-step run
                    p2['knobs']['TDS.fixt'] = 1
                    p2['knobs']['TDS.tstep'] = 1 / 240
                ss_h, hh = tdssim.simulate(p2, taps_kwargs={'persist': False, 'check_mirror': False})
                if tdssim.run_ok(hh):
                    mk = (ss_ref.dae.Tf != 0)
                    est = max(float(np.max((np.abs(ss_h.dae.x - ss_ref.dae.x) / (1 + np.abs(ss_ref.dae.x)))[mk])) if mk.any() else 0.0,
                              float(np.max(np.abs(ss_h.dae.y - ss_ref.dae.y) / (1 + np.abs(ss_ref.dae.y)))))
                    bound = 3 * est + 200 * tol
                    probes['estimate_match'] = 1
                    res['est_ratio'] = info['final'] / bound
                    kinds = sorted({c['how'] for c in plan['cuts']})
                    if info['final'] > bound and any(k_ not in ('resume', 'reset_pf') for k_ in kinds):
                        # an interruption off the grid inserts a grid point, which alone can move a stiff post-event transient by more
                        # than the step-halving estimate (kundur_vsc, cut 5e-5 s after the event: plain resume differs from the
                        # uninterrupted run by 2.6e-5, estimate 3e-6).  Separate the two effects with a twin that is interrupted at
                        # the same instants by plain resume: the snapshot / restart machinery must follow that twin closely, and
                        # plain resume must stay within ten times the estimate.
                        p3 = json.loads(json.dumps(plan))
                        for c_ in p3['cuts']:
                            if c_['how'] not in ('resume', 'reset_pf'):
                                c_['how'] = 'resume'
                                c_.pop('crash_after', None)
                        tw = tdssim.new_hist()
                        ss_tw = run_subject(p3, tw)
                        if tdssim.run_ok(tw):
                            def _rel(xa, ya, xb, yb):
                                mk2 = (ss_ref.dae.Tf != 0)
                                return max(float(np.max((np.abs(xa - xb) / (1 + np.abs(xb)))[mk2])) if mk2.any() else 0.0,
                                           float(np.max(np.abs(ya - yb) / (1 + np.abs(yb)))))
                            xs_, ys_ = (sub['sub']['xf'], sub['sub']['yf']) if 'sub' in sub else (ss_sub.dae.x, ss_sub.dae.y)
                            d_rt = _rel(xs_, ys_, ss_tw.dae.x, ss_tw.dae.y)
                            d_ru = _rel(ss_tw.dae.x, ss_tw.dae.y, ss_ref.dae.x, ss_ref.dae.y)
                            probes['resume_twin_used'] = 1
                            if d_rt > 1e-6 + 50 * tol:
                                v.append(V('trajectory', 'final state after %s differs from the same run interrupted by plain resume at the same '
                                           'instants by %.3g (relative)' % (kinds, d_rt), what='final_vs_resume_twin', kinds=','.join(kinds)))
                            elif d_ru > 10 * est + 200 * tol:
                                v.append(V('trajectory', 'final state of the run resumed at the same instants differs from the uninterrupted '
                                           'run by %.3g (relative), 10x step-halving estimate %.3g' % (d_ru, est), what='final',
                                           kinds=','.join(kinds)))
                            bound = float('inf')
                    elif info['final'] > bound and set(kinds) <= {'resume', 'reset_pf'}:
                        bound = 10 * est + 200 * tol
                    if info['final'] > bound:
                        v.append(V('trajectory', 'final state of the interrupted run differs from the uninterrupted run by %.3g '
                                   '(relative), bound %.3g (step-halving estimate %.3g)' % (info['final'], bound, est),
                                   what='final', kinds=','.join(kinds)))
                else:
                    probes['estimate_skipped'] = 1
        # --- event log: nothing lost, nothing repeated across boundaries
        if 'sub' not in sub and tdssim.run_ok(ref):
            v += tdssim.o_exactly_once(sub)
            a = sorted((r['model'], r['timer'], r['idx'], r['t']) for r in ref['timer_log'] if r['enabled'] == 1)
            b = sorted((r['model'], r['timer'], r['idx'], r['t']) for r in sub['timer_log'] if r['enabled'] == 1)
            if a != b and tdssim.run_ok(sub):
                v.append(V('event_log', 'firings of the interrupted run %s differ from the uninterrupted run %s' %
                           (b[:6], a[:6]), what='differs'))
        if any(c['how'] == 'reset_pf' for c in plan['cuts']):
            v += reset_pf_check(plan, sub.get('scratch') or ref.get('scratch'))
        ev_t = sorted({t for e in ref['events'] if e['u'] == 1 for t in e['timers'].values() if t > 0})
        first = ev_t[0] if ev_t else float('inf')
        probes['cut_at_event'] = sum(1 for c in plan['cuts'] if c['t'] in ev_t)
        probes['cut_just_before_event'] = sum(1 for c in plan['cuts'] if c.get('cls') == 'just_before_event')
        probes['cut_off_grid'] = sum(1 for c in plan['cuts'] if c.get('cls') in ('offgrid', 'near_event', 'just_after_first', 'just_before_event'))
        probes['events_after_cut'] = sum(1 for t in ev_t if plan['cuts'] and t > plan['cuts'][0]['t'] and t <= plan['tf'])
        res['probes'] = probes
        res['faults'] = dict(sub['faults_fired'])
        res['nontrivial'] = bool(plan['cuts']) and any(c['t'] > first for c in plan['cuts'])
        res['sig'] = json.dumps([plan['case'], sorted(c['how'] for c in plan['cuts']), sorted(c.get('cls', '') for c in plan['cuts']),
                                 plan['knobs'].get('TDS.fixt', 1), plan['knobs'].get('TDS.method', 'trapezoid'),
                                 [round(c['t'], 4) for c in plan['cuts']] if plan.get('cls') == 'enum' else 0])
        res['sim_seconds'] = 2 * plan['tf']
        res['steps'] = ref['n_attempts'] + sub['n_attempts']
        dg = core.Digest()
        dg.add(tdssim.digest_of(ref, ss_ref), tdssim.digest_of(sub, ss_sub))
        res['digest'] = dg.hex()
        res['info'] = {k: (float(x) if isinstance(x, (float, np.floating)) else x) for k, x in info.items()}
    finally:
        tdssim.cleanup(ref)
        tdssim.cleanup(sub)
    return res


def simplify(plan):
    for i, c in enumerate(plan.get('cuts', [])):
        if c['how'] != 'resume':
            q = json.loads(json.dumps(plan))
            q['cuts'][i]['how'] = 'resume'
            yield q
    from dst.props.c06 import simplify as s6
    yield from s6(plan)


def extra_coverage(results, tier):
    ratios = [r['est_ratio'] for r in results if 'est_ratio' in r]
    return {'estimate_bound_worst_ratio': max(ratios) if ratios else 0.0,
            'exhaustive_subspaces': ['every stored grid point 1..12 after the disturbance of a 0.6 s run as split point '
                                     '(resume/snapshot alternating) for 3 cases']}
