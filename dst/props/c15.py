"""
C15 -- stored and exported results are the simulated values, complete and labelled.

Engine: tds-sim + disk seam.  Ground truth = the recorder's copy of (t, x, y) of every *accepted* attempt
(what the solver held).  The plan decides the case, disturbance, Output devices (model / model+var /
model+var+dev / invalid), save_every, limit_store/max_store, resumed segments, real output files in a scratch
directory and disk faults on the k-th npz write.  Oracles: memory series == reference thinning of the accepted
attempts, bit-exact, in the reference's columns; npz rows == every kept row exactly once, in order, across
off-load chunks and resumed segments; lst label of column j names the owner of that slot; the loader, csv
export and csv replay reproduce the same numbers; name/regex queries return the reference's columns; a write
error is never followed by a silently incomplete "successful" file.
"""

import errno
import json
import os
import re

import numpy as np

from dst import core, gen, tdssim
from dst.core import stream
from dst.tdssim import V

PROP = 'C15'
LEVEL = 'exploration'
COUNTS = {'quick': 300, 'thorough': 9000}
BUDGET = {'quick': 110, 'thorough': 1500}
TIMEOUT = 200
SHRINK_LISTS = [['outputs'], ['segments_cut'], ['faults']]
EXPECTED_PROBES = ['memory_loader_checked', 'offload_chunks', 'resumed_with_offload', 'partial_output_selection', 'thinned', 'csv_replay',
                   'write_fault', 'query_checked', 'invalid_output_entry']
RULE = ('plan = seeded (stock case + its disturbance, 0-4 Output devices of 4 shapes, save_every in {1,2,3,5}, limit_store x max_store, '
        '1-3 resumed segments, files in a scratch dir, optional ENOSPC/EIO on the k-th npz write, csv export + replay); non-trivial = '
        'at least 5 stored rows compared in files; distinct = (case, output shapes, save_every, limit_store, #chunks>1, segments, fault kind)')
ASSUMPTIONS = [
    'ground truth = copies of dae.t/x/y taken by the StepTap recorder right after each accepted attempt',
    'slot -> (model, variable, device) map is read from the variables\' address arrays (C10 checks that map)',
    'csv text written with %.18e is parsed back exactly with float(); the replay must reproduce stamps and values bit-exactly',
]


def plans(seed, tier, count):
    out = [json.loads(json.dumps(p)) for p in REGRESSION]
    i = 0
    while len(out) < count:
        out.append({'stub': True, 'seed': core.H(seed, PROP, i), 'tier': tier})
        i += 1
    return out


def elaborate(stub):
    seed = stub['seed']
    rng = stream(seed, 'case')
    case = gen.pick_case(rng, include_big=False)
    k = stream(seed, 'knobs')
    knobs = {'TDS.tstep': k.choice([1 / 30, 1 / 60, 0.02, 0.05])}
    if k.random() < 0.2:
        knobs['TDS.fixt'] = 0
    if k.random() < 0.5:
        knobs['TDS.save_every'] = k.choice([2, 3, 5])
    if k.random() < 0.5:
        knobs['TDS.limit_store'] = 1
        knobs['TDS.max_store'] = k.choice([3, 5, 8, 13, 30])
    if k.random() < 0.15:
        knobs['TDS.store_f'] = 1
    channels = gen.pick_channels(stream(seed, 'channels'), knobs)
    sp = stream(seed, 'span')
    tf = sp.choice([1.2, 1.5, 2.2])
    segs = gen.draw_segments(stream(seed, 'splits'), tf, knobs['TDS.tstep'], max_seg=3)
    fr = stream(seed, 'faults.disk')
    faults = []
    if fr.random() < 0.2:
        faults.append({'seam': 'disk', 'kind': fr.choice(['enospc', 'eio']), 'at_write': fr.randint(1, 4)})
    return {'property': PROP, 'seed': seed, 'case': case['case'], 'knobs': knobs, 'channels': channels,
            'disable_stock_events': False, 'events': [], 'tf': tf, 'segments_cut': segs[:-1], 'outputs': [],
            'faults': faults, 'csv_replay': stream(seed, 'csv').random() < 0.35, '_need_devices': True}


def _finish(plan, probe):
    r = stream(plan['seed'], 'outputs')
    n = r.choice([0, 0, 1, 2, 3, 4])
    models = [name for name, m in probe.models.items() if m.n and (m.flags.tds or m.flags.pflow)
              and (len(m.states) + len(m.algebs)) > 0]
    outs = []
    for _ in range(n):
        x = r.random()
        mname = r.choice(models)
        m = probe.models[mname]
        allv = list(m.states.keys()) + list(m.algebs.keys()) + list(m.states_ext.keys()) + list(m.algebs_ext.keys())
        if x < 0.3:
            outs.append({'model': mname})
        elif x < 0.6:
            outs.append({'model': mname, 'varname': r.choice(allv)})
        elif x < 0.85:
            dev = r.choice(list(m.idx.v))
            outs.append({'model': mname, 'varname': r.choice(allv), 'dev': dev.item() if hasattr(dev, 'item') else dev})
        elif x < 0.9:
            outs.append({'model': 'NoSuchModel'})
        elif x < 0.95:
            outs.append({'model': mname, 'varname': 'no_such_var'})
        else:
            outs.append({'model': mname, 'varname': r.choice(allv), 'dev': 'no_such_dev'})
    plan['outputs'] = outs
    plan.pop('_need_devices', None)
    return plan


# --------------------------------------------------------------------------------------------
# reference models
# --------------------------------------------------------------------------------------------

def label(model_name, idx):
    if isinstance(idx, str) and model_name in idx:
        out = idx
    else:
        out = '%s %s' % (model_name, idx)
    return out.replace('_', ' ')


def slot_names(ss):
    """slot -> label from the variables' own address arrays."""
    xn, yn = {}, {}
    for mdl in ss.exist.pflow_tds.values():
        if not mdl.n:
            continue
        for name, var in list(mdl.states.items()) + list(mdl.algebs.items()):
            dest = xn if var.v_code == 'x' else yn
            for idx, a in zip(mdl.idx.v, var.a):
                dest[int(a)] = '%s %s' % (name, label(mdl.class_name, idx))
    return xn, yn


def ref_selection(ss, outputs):
    """Reference Output selection: sorted unique addresses per array, or None when no Output device is valid... (n>0 decides)."""
    sel = {'x': set(), 'y': set()}
    n_valid_devices = len(outputs)
    for o in outputs:
        mname, var, dev = o.get('model'), o.get('varname'), o.get('dev')
        mdl = ss.exist.pflow_tds.get(mname)
        if mdl is None:
            continue
        allv = {}
        for d in (mdl.states, mdl.states_ext, mdl.algebs, mdl.algebs_ext):
            allv.update(d)
        if var is not None and var not in allv:
            continue
        if dev is not None and dev not in list(mdl.idx.v):
            continue
        items = list(allv.values()) if var is None else [allv[var]]
        for it in items:
            if dev is None:
                sel[it.v_code].update(int(a) for a in it.a)
            else:
                uid = list(mdl.idx.v).index(dev)
                sel[it.v_code].add(int(it.a[uid]))
    return sorted(sel['x']), sorted(sel['y']), n_valid_devices


def kept_rows(attempts, save_every, kcount0=0):
    """Reference thinning: accepted step number j (dae.kcount, persists across resumed segments) is kept iff j % save_every == 0."""
    rows = []
    j = kcount0
    for a in attempts:
        if not a['converged']:
            continue
        if save_every == 1 or (save_every > 1 and j % save_every == 0):
            rows.append(a)
        j += 1
    return rows


class DiskFaults:
    """Patch numpy.savez_compressed inside the run context: the k-th call fails with ENOSPC / EIO."""

    def __init__(self, faults, hist):
        self.plan = {int(f['at_write']): f['kind'] for f in faults if f.get('seam') == 'disk'}
        self.calls = 0
        self.hist = hist
        self.orig = None
        self.writes = []

    def __enter__(self):
        self.orig = np.savez_compressed
        me = self

        def savez(file, *a, **kw):
            me.calls += 1
            kind = me.plan.get(me.calls)
            if kind:
                me.hist['faults_fired'][kind] = me.hist['faults_fired'].get(kind, 0) + 1
                raise OSError(errno.ENOSPC if kind == 'enospc' else errno.EIO, 'injected %s on npz write %d' % (kind, me.calls))
            r = me.orig(file, *a, **kw)
            me.writes.append(me.calls)
            return r
        np.savez_compressed = savez
        return self

    def __exit__(self, *exc):
        np.savez_compressed = self.orig
        return False


def execute(plan):
    if plan.get('stub'):
        plan = elaborate(plan)
    if plan.get('_need_devices'):
        from dst.world import build_system
        plan = _finish(plan, build_system(plan['case'], setup=False))
    res = {'plan': plan, 'violations': []}
    v = res['violations']
    run_plan = dict(plan)
    run_plan['segments'] = list(plan.get('segments_cut', [])) + [plan['tf']]
    run_plan['output'] = True
    run_plan['events'] = list(plan.get('events', [])) + [{'model': 'Output', 'params': dict(o)} for o in plan['outputs']]
    hist = None
    probes = {}
    try:
        hist_box = {}
        disk = None

        # run with the disk seam installed
        import dst.tdssim as T
        holder = {'faults_fired': {}}
        disk = DiskFaults(plan.get('faults', []), holder)
        raised = None
        with disk:
            try:
                ss, hist = T.simulate(run_plan, taps_kwargs={'persist': False, 'check_mirror': False}, on_segment=_load_plotter)
            except OSError as e:
                raised = e
                ss, hist = None, None
        if raised is not None:
            # a write error that propagates is "reported"; nothing more to judge (files may be partial)
            res.update(nontrivial=False, sig='write-error-propagated', digest='write-error',
                       probes={'write_fault': 1}, faults=dict(holder['faults_fired']))
            return res
        for k, n in holder['faults_fired'].items():
            hist['faults_fired'][k] = hist['faults_fired'].get(k, 0) + n
        v += hist['violations']
        if not hist['pf']:
            res.update(precondition_unmet=1, nontrivial=False, sig='pf-failed', digest='pf-failed')
            return res
        ex = hist.get('exception')
        if ex and ex['type'] == 'OSError':
            # the injected error surfaced through run(): reported
            v[:] = [x for x in v if x['oracle'] != 'run_exception']
            res.update(nontrivial=False, sig='write-error-propagated', digest='write-error',
                       probes={'write_fault': 1}, faults=dict(hist['faults_fired']))
            return res
        cfg = ss.TDS.config
        xn, yn = slot_names(ss)
        xsel, ysel, n_out = ref_selection(ss, plan['outputs'])
        if n_out == 0:
            xsel, ysel = list(range(ss.dae.n)), list(range(ss.dae.m))
        # ---- selection and labels
        if n_out > 0:
            if list(ss.Output.xidx) != xsel or list(ss.Output.yidx) != ysel:
                v.append(V('selection', 'Output selects x%s y%s, reference x%s y%s' %
                           (list(ss.Output.xidx)[:8], list(ss.Output.yidx)[:8], xsel[:8], ysel[:8]), what='addresses'))
        exp_names = [xn.get(a, '?') for a in xsel] + [yn.get(a, '?') for a in ysel]
        # ---- expected rows
        save_every = cfg.save_every
        rows = kept_rows(hist['attempts'], save_every) if save_every != 0 else []
        exp_t = np.array([a['t'] for a in rows])
        exp_x = np.array([a['x1'][xsel] for a in rows]) if rows else np.zeros((0, len(xsel)))
        exp_y = np.array([a['y1'][ysel] for a in rows]) if rows else np.zeros((0, len(ysel)))
        ok = tdssim.run_ok(hist)
        # ---- memory series
        ts = ss.dae.ts
        mem_t = np.array(ts.t)
        nm = len(mem_t)
        if cfg.limit_store:
            # memory holds the rows since the last off-load only
            if nm > len(exp_t) or (nm and not (np.array_equal(mem_t, exp_t[-nm:]) and np.array_equal(ts.x, exp_x[-nm:])
                                              and np.array_equal(ts.y, exp_y[-nm:]))):
                v.append(V('memory_series', 'in-memory tail (%d rows) is not the tail of the accepted steps' % nm, what='tail'))
        else:
            if not (np.array_equal(mem_t, exp_t) and ts.x.shape == exp_x.shape and np.array_equal(ts.x, exp_x)
                    and ts.y.shape == exp_y.shape and np.array_equal(ts.y, exp_y)):
                v.append(V('memory_series', _describe(mem_t, ts.x, ts.y, exp_t, exp_x, exp_y), what='rows',
                           thinned=save_every != 1, selected=n_out > 0))
        # ---- in-memory plotting loader, (re)loaded by the user after every segment
        pl = hist.get('plotter')
        if pl is not None and nm:
            probes['memory_loader_checked'] = 1
            if pl.get('error'):
                v.append(V('memory_loader', 'TDS.load_plotter() after segment %d raised %s' % (pl['segment'], pl['error']), what='raised'))
            else:
                full_mem = np.hstack([mem_t.reshape(-1, 1), np.asarray(ts.x), np.asarray(ts.y)])
                got = pl['data']
                if got is None or got.shape[0] != nm or not np.array_equal(pl['t'], mem_t) or \
                        not np.array_equal(got[:, :full_mem.shape[1]], full_mem):
                    v.append(V('memory_loader', 'the plotter loaded after the last of %d segment(s) holds %s rows up to t=%s; the time series '
                               'holds %d rows up to t=%r' % (len(hist['segments']), None if got is None else got.shape[0],
                                                            None if got is None or not len(pl['t']) else pl['t'][-1], nm, mem_t[-1]),
                               what='rows', resumed=len(hist['segments']) > 1))
                elif exp_names and pl['names'][:1 + len(exp_names)] != ['Time [s]'] + exp_names:
                    v.append(V('memory_loader', 'labels of the in-memory plotter differ from the owners of the selected slots', what='labels'))
        # ---- files
        npz, lst = ss.files.npz, ss.files.lst
        wrote_fault = bool(hist['faults_fired'].get('enospc') or hist['faults_fired'].get('eio'))
        n_file_rows = 0
        if ok and not wrote_fault:
            if not (os.path.isfile(npz) and os.path.isfile(lst)):
                v.append(V('files', 'run() succeeded but output files are missing (%s, %s)' %
                           (os.path.isfile(npz), os.path.isfile(lst)), what='missing'))
            else:
                data = np.load(npz)['data']
                n_file_rows = len(data)
                nx = len(xsel)
                ft, fx, fy = data[:, 0], data[:, 1:1 + nx], data[:, 1 + nx:1 + nx + len(ysel)]
                if not (np.array_equal(ft, exp_t) and np.array_equal(fx, exp_x) and np.array_equal(fy, exp_y)):
                    v.append(V('file_rows', _describe(ft, fx, fy, exp_t, exp_x, exp_y), what='rows',
                               limit_store=int(cfg.limit_store), resumed=len(hist['segments']) > 1, thinned=save_every != 1))
                # lst labels
                with open(lst) as f:
                    lines = [ln.rstrip('\n') for ln in f]
                got = [ln.split(',')[1].strip() for ln in lines]
                want = ['Time [s]'] + exp_names
                if got[:len(want)] != want:
                    j = next((i for i, (a, b) in enumerate(zip(got, want)) if a != b), min(len(got), len(want)))
                    v.append(V('labels', 'lst column %d is %r, the owner of that slot is %r (lst has %d names, expected %d)' %
                               (j, got[j] if j < len(got) else None, want[j] if j < len(want) else None, len(got), len(want)),
                               what='lst', selected=n_out > 0))
                # ---- loader, queries, csv
                from andes.plot import TDSData
                base = os.path.basename(npz)[:-4]
                td = TDSData(full_name=base + '.lst', mode='file', path=os.path.dirname(npz))
                if not np.array_equal(td._data, data):
                    v.append(V('loader', 'TDSData(mode=file) data differ from the npz content', what='data'))
                qr = stream(plan['seed'], 'query')
                if exp_names:
                    target = qr.choice(exp_names)
                    word = target.split(' ')[0]
                    pat = '^' + re.escape(word) + ' '
                    idxs, names = td.find(pat)
                    want_idx = [i + 1 for i, nme in enumerate(exp_names) if re.search(pat, nme)]
                    if sorted(idxs) != want_idx:
                        v.append(V('query', 'find(%r) returns columns %s, reference %s' % (pat, sorted(idxs)[:8], want_idx[:8]),
                                   what='find'))
                    else:
                        vals = td.get_values(idxs)
                        full = np.hstack([exp_x, exp_y])
                        if not np.array_equal(vals, full[:, [i - 1 for i in idxs]]):
                            v.append(V('query', 'get_values for %r does not return the simulated values' % pat, what='values'))
                    probes['query_checked'] = 1
                csv_path = td.export_csv(path=os.path.join(os.path.dirname(npz), base + '_exp.csv'))
                with open(csv_path) as f:
                    header = f.readline().rstrip('\n').split(',')
                    body = [[float(c) for c in ln.split(',')] for ln in f if ln.strip()]
                body = np.array(body) if body else np.zeros((0, len(header)))
                if header[:1 + len(exp_names)] != ['Time [s]'] + exp_names or \
                        not np.array_equal(body[:, :data.shape[1]] if len(body) else body, data if len(body) else body):
                    v.append(V('csv_export', 'csv export differs from the npz content / labels', what='csv'))
                if plan.get('csv_replay') and len(data) >= 3 and cfg.store_z == 0:
                    v += _csv_replay(plan, csv_path, data, xsel, ysel, n_out, probes)
        elif ok and wrote_fault:
            v.append(V('write_fault', 'an injected write error (%s) was swallowed: run() returned True' %
                       dict(hist['faults_fired']), what='swallowed'))
        n_chunks = len(disk.writes)
        probes.update({
            'offload_chunks': max(0, n_chunks - 1) if cfg.limit_store else 0,
            'resumed_with_offload': int(cfg.limit_store and len(hist['segments']) > 1),
            'partial_output_selection': int(n_out > 0),
            'invalid_output_entry': sum(1 for o in plan['outputs'] if o.get('model') == 'NoSuchModel' or
                                        str(o.get('varname', '')).startswith('no_such') or o.get('dev') == 'no_such_dev'),
            'thinned': int(save_every != 1),
            'write_fault': int(wrote_fault),
            'file_rows': n_file_rows,
        })
        res['probes'] = probes
        res['faults'] = dict(hist['faults_fired'])
        shapes = sorted('m' + ('v' if o.get('varname') else '') + ('d' if o.get('dev') is not None else '') for o in plan['outputs'])
        res['sig'] = json.dumps([plan['case'], shapes, save_every, int(cfg.limit_store), n_chunks > 1, len(hist['segments']),
                                 sorted(f['kind'] for f in plan.get('faults', []))])
        res['nontrivial'] = n_file_rows >= 5
        res['sim_seconds'] = tdssim.t_reached(hist)
        res['steps'] = hist['n_attempts']
        d = core.Digest()
        d.add(tdssim.digest_of(hist, ss), n_file_rows)
        res['digest'] = d.hex()
    finally:
        if hist is not None:
            tdssim.cleanup(hist)
    return res


def _load_plotter(ss, hist, si):
    """What a notebook user does after each run: load the in-memory plotter and look at it (values are copied at once)."""
    rec = {'segment': si, 'error': None, 't': None, 'data': None, 'names': None}
    try:
        ss.TDS.load_plotter()
        plt = ss.TDS.plt
        rec['t'] = np.array(plt.t, dtype=float).copy()
        if len(rec['t']):
            rec['data'] = np.array(plt.get_values(list(range(plt.nvars))), dtype=float).copy()
        rec['names'] = list(plt._uname)
    except Exception as e:
        rec['error'] = '%s: %s' % (type(e).__name__, str(e)[:120])
    hist['plotter'] = rec


def _describe(t, x, y, et, ex, ey):
    if len(t) != len(et):
        extra = ''
        ts, es = set(np.asarray(t).tolist()), set(np.asarray(et).tolist())
        if ts - es:
            extra = '; rows not among the accepted steps: %s' % sorted(ts - es)[:3]
        elif es - ts:
            extra = '; missing stamps: %s' % sorted(es - ts)[:3]
        if len(t) != len(ts):
            extra += '; duplicated stamps present'
        return '%d rows, reference keeps %d accepted steps%s' % (len(t), len(et), extra)
    if not np.array_equal(t, et):
        i = int(np.where(np.asarray(t) != et)[0][0])
        return 'row %d has stamp %r, reference %r' % (i, t[i], et[i])
    if x.shape != ex.shape or y.shape != ey.shape:
        return 'column counts %s/%s differ from the reference selection %s/%s' % (x.shape[1:], y.shape[1:], ex.shape[1:], ey.shape[1:])
    bad = np.where(~np.all(x == ex, axis=1))[0] if x.size else np.array([])
    if len(bad):
        return 'row %d (t=%r): state values differ from what the solver held (max %.3g)' % (int(bad[0]), t[int(bad[0])],
                                                                                        float(np.max(np.abs(x - ex))))
    bad = np.where(~np.all(y == ey, axis=1))[0]
    return 'row %d (t=%r): algebraic values differ from what the solver held (max %.3g)' % (int(bad[0]), t[int(bad[0])],
                                                                                        float(np.max(np.abs(y - ey))))


def _csv_replay(plan, csv_path, data, xsel, ysel, n_out, probes):
    """Replay the csv in a fresh System of the same case (+ same Output devices)."""
    out = []
    p2 = {'case': plan['case'], 'knobs': {}, 'channels': {}, 'disable_stock_events': plan.get('disable_stock_events', False),
          'events': [{'model': 'Output', 'params': dict(o)} for o in plan['outputs']]}
    ss2, _ = tdssim.build(p2)
    if not ss2.PFlow.run():
        return out
    try:
        ret = ss2.TDS.run(from_csv=csv_path)
    except Exception as e:
        out.append(V('csv_replay', 'TDS.run(from_csv=...) raised %s: %s' % (type(e).__name__, str(e)[:160]), what='raised',
                     selected=n_out > 0))
        return out
    probes['csv_replay'] = 1
    t2 = np.array(ss2.dae.ts.t)
    nx = len(xsel)
    x2, y2 = ss2.dae.ts.x, ss2.dae.ts.y
    et, ex, ey = data[:, 0], data[:, 1:1 + nx], data[:, 1 + nx:1 + nx + len(ysel)]
    missing = sorted(set(et.tolist()) - set(t2.tolist()))
    extra = sorted(set(t2.tolist()) - set(et.tolist()))
    if missing or extra or len(t2) != len(et):
        second = len(et) > 1 and missing == [et[1]] and not extra
        out.append(V('csv_replay', 'replay stores %d rows for %d csv rows; missing stamps %s, extra %s' %
                     (len(t2), len(et), missing[:3], extra[:3]), what='rows_second_sample_dropped' if second else 'rows'))
        return out
    if not ret:
        out.append(V('csv_replay', 'replay of a complete csv returned False', what='ret'))

    if not (x2.shape == ex.shape and y2.shape == ey.shape and np.array_equal(x2, ex) and np.array_equal(y2, ey)):
        out.append(V('csv_replay', 'replayed values differ from the csv (written with %.18e, i.e. exactly)', what='values',
                     selected=n_out > 0))
    return out


def simplify(plan):
    for k in ('TDS.save_every', 'TDS.limit_store', 'TDS.fixt', 'TDS.store_f'):
        if k in plan.get('knobs', {}):
            q = json.loads(json.dumps(plan))
            del q['knobs'][k]
            q['channels'].pop(k, None)
            if k == 'TDS.limit_store':
                q['knobs'].pop('TDS.max_store', None)
                q['channels'].pop('TDS.max_store', None)
            yield q
    if plan.get('csv_replay'):
        q = json.loads(json.dumps(plan))
        q['csv_replay'] = False
        yield q


REGRESSION = [
    {'property': PROP, 'seed': 11, 'case': 'kundur/kundur_full.xlsx', 'knobs': {'TDS.tstep': 1 / 30, 'TDS.limit_store': 1, 'TDS.max_store': 5,
                                                                                'TDS.save_every': 2},
     'channels': {}, 'disable_stock_events': False, 'events': [], 'tf': 2.2, 'segments_cut': [1.0, 2.05],
     'outputs': [{'model': 'GENROU', 'varname': 'omega'}, {'model': 'Bus', 'varname': 'v', 'dev': 3}], 'faults': [], 'csv_replay': True},
    {'property': PROP, 'seed': 12, 'case': 'ieee14/ieee14_linetrip.xlsx', 'knobs': {'TDS.tstep': 1 / 30},
     'channels': {}, 'disable_stock_events': False, 'events': [], 'tf': 1.5, 'segments_cut': [],
     'outputs': [], 'faults': [{'seam': 'disk', 'kind': 'enospc', 'at_write': 1}], 'csv_replay': False},
    {'property': PROP, 'seed': 13, 'case': '5bus/pjm5bus.json', 'knobs': {'TDS.tstep': 1 / 30},
     'channels': {}, 'disable_stock_events': False, 'events': [], 'tf': 1.0, 'segments_cut': [],
     'outputs': [], 'faults': [], 'csv_replay': True},
]
