"""
C20 -- the configuration in effect is the one the user supplied.

Engine: lifecycle-sim (construction / save / cold restart histories).  Every plan picks seeded fields from the real
configuration space (System, every routine, every model: ~400 fields), seeded new values of the field's own type, and
a seeded delivery per field: SECTION.FIELD=VALUE option, private rc file, System(config={...}) dictionary, or option AND
rc file with different values (precedence).  Oracles:
  effective    right after construction the value in effect is the highest-precedence supplied one (option > file >
               default) with int / float / str coercion as documented; untouched fields keep their defaults
  restart      save_config() -> new System(config_path=...) reproduces every field of the system, all routines and all
               models in value and type (also for values changed on the config object after construction)
  rejected     values outside a field's declared alternatives, an option without SECTION, an option with two '=' raise
  truncated    an rc file cut at a seeded byte: fields that are completely present are honoured, the others fall back
               to their defaults or the file is rejected loudly -- never a silently different value
Every tds-sim plan of the other properties additionally delivers its knobs through seeded channels and checks them
(oracle config_effective in dst/tdssim.py).
"""

import configparser
import json
import os

from dst import core
from dst.core import stream
from dst.tdssim import V
from dst.world import scratch_dir

PROP = 'C20'
LEVEL = 'exploration'
COUNTS = {'quick': 420, 'thorough': 12000}
BUDGET = {'quick': 100, 'thorough': 1500}
TIMEOUT = 120
SHRINK_LISTS = [['fields']]
EXPECTED_PROBES = ['option', 'rc', 'dict', 'both', 'restart_fields_compared', 'rejected_checked', 'truncated_rc', 'attr_then_save',
                   'model_field', 'routine_field', 'system_field', 'second_system_same_file']
RULE = ('plan = seeded set of real config fields with seeded values and delivery channels (+ negative and truncation variants); '
        'non-trivial = at least one non-default value delivered; distinct = (sorted fields, channels, variant)')
ASSUMPTIONS = [
    'the field catalogue (names, defaults, declared alternatives) is read from a default System of the current tree',
    'new values stay inside the declared alternatives for positive plans; numeric free-form fields are scaled or shifted',
]

_catalogue = None


def field_catalogue():
    """[(section, field, default, alt)] of the current tree (built once per worker)."""
    global _catalogue
    if _catalogue is None:
        import andes
        ss = andes.System(default_config=True, no_output=True, autogen_stale=False)
        out = []
        objs = [('System', ss.config)] + [(n, r.config) for n, r in ss.routines.items()] + [(n, m.config) for n, m in ss.models.items()]
        for sec, cfg in objs:
            for k, val in cfg.as_dict(refresh=True).items():
                out.append((sec, k, val, cfg._alt.get(k)))
        _catalogue = (out, set(ss.routines), set(ss.models))
    return _catalogue


_declared = None


def declared_alternatives():
    global _declared
    if _declared is None:
        import os
        with open(os.path.join(os.path.dirname(os.path.dirname(os.path.abspath(__file__))), 'config_alt.json')) as f:
            _declared = json.load(f)
    return _declared


SKIP_FIELDS = {('System', 'dime_enabled'), ('System', 'numba'), ('System', 'numba_parallel'), ('System', 'numba_nopython'),
               ('System', 'yapf_pycode'), ('TDS', 'qrt'), ('System', 'seed'), ('System', 'np_divide'), ('System', 'np_invalid'),
               ('System', 'dime_address'), ('System', 'dime_name'), ('PFlow', 'init_tds'), ('EIG', 'plot'), ('TDS', 'method')}


def plans(seed, tier, count):
    out = [
        {'property': PROP, 'seed': 31, 'variant': 'positive', 'fields': [
            {'sec': 'TDS', 'field': 'tstep', 'value': 0.01, 'channel': 'option'}, {'sec': 'TDS', 'field': 'tol', 'value': 1e-6, 'channel': 'option'},
            {'sec': 'PFlow', 'field': 'max_iter', 'value': 30, 'channel': 'rc'}, {'sec': 'System', 'field': 'mva', 'value': 200, 'channel': 'dict'},
            {'sec': 'TDS', 'field': 'fixt', 'value': 0, 'channel': 'both', 'rc_value': 1}]},
        {'property': PROP, 'seed': 32, 'variant': 'attr_then_save', 'fields': [
            {'sec': 'TDS', 'field': 'tstep', 'value': 0.02, 'channel': 'attr'}, {'sec': 'PQ', 'field': 'p2p', 'value': 1.0, 'channel': 'attr'}]},
        # signed integers written as text (seeded change C20-isdigit-signed-float: only unsigned digit strings stayed integers)
        {'property': PROP, 'seed': 33, 'variant': 'positive', 'fields': [
            {'sec': 'TDS', 'field': 'ddelta_limit', 'value': -90, 'channel': 'option'}]},
        {'property': PROP, 'seed': 34, 'variant': 'positive', 'fields': [
            {'sec': 'TDS', 'field': 'ddelta_limit', 'value': -90, 'channel': 'rc'}]},
        {'property': PROP, 'seed': 35, 'variant': 'attr_then_save', 'fields': [
            {'sec': 'TDS', 'field': 'ddelta_limit', 'value': -90, 'channel': 'attr'}]},
    ]
    ref_alt = declared_alternatives()
    j = 0
    for key in sorted(ref_alt):
        if any(isinstance(a, str) for a in ref_alt[key]['alt']):
            sec, k = key.split('.')
            for ch in ('option', 'rc'):
                out.append({'property': PROP, 'seed': core.H('fix20rej', j), 'variant': 'rejected', 'fields': [], 'reject': 'out_of_alt',
                            'reject_field': {'sec': sec, 'field': k, 'value': 'no_such_option', 'channel': ch}})
                j += 1
    for i in range(count - len(out)):
        out.append({'stub': True, 'seed': core.H(seed, PROP, i), 'tier': tier})
    return out


def new_value(r, default, alt):
    if isinstance(alt, (tuple, list, set)) and not isinstance(alt, str):
        choices = [a for a in alt if a != default]
        if choices:
            return r.choice(sorted(choices, key=repr))
        return default
    if isinstance(default, bool):
        return default
    if isinstance(default, int):
        val = default + r.choice([1, 2, 5]) if default >= 0 else default - 1
        if alt is None and r.random() < 0.3:
            val = -abs(val) - 1          # an unrestricted integer field: a signed value must stay an integer on every channel
        return val
    if isinstance(default, float):
        return round(default * r.choice([0.5, 1.5, 2.0]) + (0.0 if default else 0.25), 9)
    return default


def elaborate(stub):
    seed = stub['seed']
    r = stream(seed, 'fields')
    cat, routines, models = field_catalogue()
    x = r.random()
    variant = 'positive' if x < 0.62 else ('attr_then_save' if x < 0.72 else ('rejected' if x < 0.87 else 'truncated'))
    usable = [c for c in cat if (c[0], c[1]) not in SKIP_FIELDS and isinstance(c[2], (int, float, str)) and not isinstance(c[2], bool)]
    fields = []
    seen = set()
    core_fields = [c for c in usable if c[0] == 'System' or c[0] in routines]
    for _ in range(r.randint(2, 9)):
        sec, k, default, alt = r.choice(core_fields) if r.random() < 0.4 else r.choice(usable)
        if (sec, k) in seen:
            continue
        seen.add((sec, k))
        val = new_value(r, default, alt)
        if isinstance(alt, str) and alt in ('positive', 'float', '>=0', '>t0') and isinstance(val, (int, float)) and val <= 0:
            val = abs(val) + 0.5
        ch = r.choice(['option', 'option', 'rc', 'rc', 'both'] + (['dict'] if sec == 'System' else []))
        f = {'sec': sec, 'field': k, 'value': val, 'channel': ch if variant != 'attr_then_save' else 'attr'}
        if ch == 'both':
            f['rc_value'] = default
        fields.append(f)
    plan = {'property': PROP, 'seed': seed, 'variant': variant, 'fields': fields}
    if variant == 'rejected':
        kinds = ['out_of_alt', 'no_section', 'two_equals']
        plan['reject'] = r.choice(kinds)
        # alternatives as declared on the pinned tree (committed catalogue, not read from the tree under test: a change that
        # loses declared alternatives must not blind the check)
        ref_alt = declared_alternatives()
        keys = sorted(k_ for k_ in ref_alt if (k_.split('.')[0], k_.split('.')[1]) not in SKIP_FIELDS or k_ == 'TDS.method')
        strs = [k_ for k_ in keys if any(isinstance(a, str) for a in ref_alt[k_]['alt'])]
        key = r.choice(strs) if r.random() < 0.35 else r.choice(keys)
        alt = ref_alt[key]['alt']
        bad = 'no_such_option' if any(isinstance(a, str) for a in alt) else max(alt) + 7
        sec, k = key.split('.')
        plan['reject_field'] = {'sec': sec, 'field': k, 'value': bad, 'channel': r.choice(['option', 'rc'])}
    if variant == 'truncated':
        plan['cut'] = r.random()
        for f in plan['fields']:
            f['channel'] = 'rc'
            f.pop('rc_value', None)
    return plan


# --------------------------------------------------------------------------------------------

def construct(plan, d, extra_option=None):
    import andes
    opts, rc, dct = [], {}, {}
    for f in plan['fields']:
        key = '%s.%s' % (f['sec'], f['field'])
        if f['channel'] in ('option', 'both'):
            opts.append('%s=%s' % (key, f['value']))
        if f['channel'] == 'rc':
            rc.setdefault(f['sec'], {})[f['field']] = f['value']
        if f['channel'] == 'both':
            rc.setdefault(f['sec'], {})[f['field']] = f['rc_value']
        if f['channel'] == 'dict':
            dct[f['field']] = f['value']
    if extra_option:
        opts.append(extra_option)
    kw = {'no_output': True, 'autogen_stale': False}     # the md5 gate keys on config field order: never regenerate here
    rc_path = None
    if rc:
        rc_path = os.path.join(d, 'andes.rc')
        with open(rc_path, 'w') as fh:
            for sec in sorted(rc):
                fh.write('[%s]\n' % sec)
                for k in sorted(rc[sec]):
                    fh.write('%s = %s\n' % (k, rc[sec][k]))
                fh.write('\n')
        kw['config_path'] = rc_path
    else:
        kw['default_config'] = True
    if opts:
        kw['config_option'] = opts
    if dct:
        kw['config'] = dct
    return andes, kw, rc_path


def cfg_of(ss, sec):
    return ss.config if sec == 'System' else (ss.routines[sec].config if sec in ss.routines else ss.models[sec].config)


def same_value(a, b):
    """Value and type class equal (int vs float matter: 1 and 1.0 are different configurations)."""
    if isinstance(a, bool) or isinstance(b, bool):
        return a == b
    if isinstance(a, (int, float)) and isinstance(b, (int, float)):
        return float(a) == float(b) and (isinstance(a, int) == isinstance(b, int) or float(a) != int(float(a)))
    return a == b and type(a) is type(b)


def snapshot_all(ss):
    out = {}
    objs = [('System', ss.config)] + [(n, r.config) for n, r in ss.routines.items()] + [(n, m.config) for n, m in ss.models.items()]
    for sec, cfg in objs:
        # read the attributes directly: Config.as_dict() caches, and calling it here would perturb what save_config sees
        for k, val in cfg.__dict__.items():
            if not k.startswith('_'):
                out[(sec, k)] = val
    return out


def execute(plan):
    if plan.get('stub'):
        plan = elaborate(plan)
    res = {'plan': plan, 'violations': []}
    v = res['violations']
    probes = {}
    d = scratch_dir('c20-')
    try:
        cat, routines, models = field_catalogue()
        defaults = {(s, k): dv for s, k, dv, _ in cat}
        variant = plan['variant']
        if variant == 'rejected':
            _rejected(plan, d, v, probes)
        else:
            andes, kw, rc_path = construct(plan, d)
            if variant == 'truncated' and rc_path:
                blob = open(rc_path, 'rb').read()
                cut = int(len(blob) * plan['cut'])
                with open(rc_path, 'wb') as fh:
                    fh.write(blob[:cut])
                probes['truncated_rc'] = 1
                kept = blob[:cut].decode(errors='replace')
            try:
                ss = andes.System(**kw)
            except Exception as e:
                if variant == 'truncated':
                    ss = None        # rejected loudly: acceptable
                else:
                    v.append(V('construct', 'System(%s) raised %s: %s' % ({k: kw[k] for k in kw if k != 'no_output'}, type(e).__name__,
                                                                          str(e)[:120]), type=type(e).__name__))
                    ss = None
            if ss is not None:
                supplied = {}
                for f in plan['fields']:
                    key = (f['sec'], f['field'])
                    probes[f['channel']] = probes.get(f['channel'], 0) + 1
                    probes['system_field' if f['sec'] == 'System' else ('routine_field' if f['sec'] in routines else 'model_field')] = 1
                    if f['channel'] == 'attr':
                        setattr(cfg_of(ss, f['sec']), f['field'], f['value'])
                    supplied[key] = f['value']
                    if variant == 'truncated':
                        # only fields whose line survived completely are required; a cut inside a value may yield a prefix: then the
                        # value in effect must be that prefix (what the file says), never anything else
                        line = '%s = %s\n' % (f['field'], f['value'])
                        sec_hdr = '[%s]' % f['sec']
                        complete = sec_hdr in kept and line in kept[kept.index(sec_hdr):]
                        if not complete:
                            supplied.pop(key)
                            continue
                    act = getattr(cfg_of(ss, f['sec']), f['field'], '__missing__')
                    if not same_value(act, f['value']):
                        v.append(V('effective', '[%s].%s supplied %r through %s%s but %r (%s) is in effect' %
                                   (f['sec'], f['field'], f['value'], f['channel'],
                                    ' (rc file says %r)' % f['rc_value'] if f['channel'] == 'both' else '', act, type(act).__name__),
                                   channel=f['channel'], what='differs' if act != '__missing__' else 'missing',
                                   section_kind='System' if f['sec'] == 'System' else ('routine' if f['sec'] in routines else 'model')))
                # untouched fields keep their defaults
                if variant != 'truncated':
                    now = snapshot_all(ss)
                    for key, dv in defaults.items():
                        if key in supplied or key not in now:
                            continue
                        if not same_value(now[key], dv):
                            v.append(V('effective', '[%s].%s was not supplied but changed from %r to %r' % (key[0], key[1], dv, now[key]),
                                       what='untouched_changed'))
                            break
                # ---- cold restart
                if variant in ('positive', 'attr_then_save') and not v:
                    if variant == 'attr_then_save':
                        probes['attr_then_save'] = 1
                    path = os.path.join(d, 'saved.rc')
                    ss.save_config(path, overwrite=True)
                    s2 = andes.System(config_path=path, no_output=True, autogen_stale=False)
                    a, b = snapshot_all(ss), snapshot_all(s2)
                    n = 0
                    for key in a:
                        n += 1
                        if key not in b:
                            v.append(V('restart', '[%s].%s is missing after save_config -> new System' % key, what='missing'))
                            break
                        if not same_value(a[key], b[key]):
                            v.append(V('restart', '[%s].%s = %r (%s) before save_config, %r (%s) in the System restarted from the saved file' %
                                       (key[0], key[1], a[key], type(a[key]).__name__, b[key], type(b[key]).__name__),
                                       what='differs', after_attr=(variant == 'attr_then_save' and key in supplied)))
                            break
                    probes['restart_fields_compared'] = n
                # ---- a second System built in the same process from the same file alone: nothing of the first one's options in it
                if variant == 'positive' and rc_path and not v and any(f['channel'] in ('option', 'both', 'dict') for f in plan['fields']):
                    s3 = andes.System(config_path=rc_path, no_output=True, autogen_stale=False)
                    probes['second_system_same_file'] = 1
                    for f in plan['fields']:
                        key = (f['sec'], f['field'])
                        exp = f['value'] if f['channel'] == 'rc' else (f['rc_value'] if f['channel'] == 'both' else defaults.get(key))
                        act = getattr(cfg_of(s3, f['sec']), f['field'], '__missing__')
                        if not same_value(act, exp):
                            v.append(V('effective', 'a second System built from the same rc file alone has [%s].%s = %r; the file / default says '
                                       '%r (the first System was given %r through %s)' % (f['sec'], f['field'], act, exp, f['value'], f['channel']),
                                       what='leaked_from_earlier_system', channel=f['channel']))
                            break
        res['probes'] = probes
        res['faults'] = {}
        if probes.get('truncated_rc'):
            res['faults']['truncated_rc'] = 1
        res['sig'] = json.dumps([plan['variant'], sorted((f['sec'], f['field'], f['channel']) for f in plan['fields']), plan.get('reject')])
        res['nontrivial'] = bool(plan['fields'])
        res['steps'] = len(plan['fields'])
        dg = core.Digest()
        dg.add(res['sig'], sorted(core.vclass(x) for x in v), sorted(probes.items()))
        res['digest'] = dg.hex()
    finally:
        import shutil
        shutil.rmtree(d, ignore_errors=True)
    return res


def _rejected(plan, d, v, probes):
    import andes
    kind = plan['reject']
    probes['rejected_checked'] = 1
    f = plan['reject_field']
    base = {'property': PROP, 'fields': []}
    try:
        if kind == 'out_of_alt':
            p2 = dict(base, fields=[f])
            _, kw, _ = construct(p2, d)
            andes.System(**kw)
            v.append(V('rejected', '[%s].%s=%r is outside the declared alternatives but was accepted (%s)' %
                       (f['sec'], f['field'], f['value'], f['channel']), what='out_of_alt', channel=f['channel']))
        elif kind == 'no_section':
            andes.System(default_config=True, no_output=True, autogen_stale=False, config_option=['%s=%s' % (f['field'], 1)])
            v.append(V('rejected', 'option %r without SECTION was accepted' % ('%s=1' % f['field']), what='no_section'))
        else:
            andes.System(default_config=True, no_output=True, autogen_stale=False, config_option=['%s.%s=1=2' % (f['sec'], f['field'])])
            v.append(V('rejected', 'option with two "=" was accepted', what='two_equals'))
    except ValueError:
        pass
    except Exception as e:
        v.append(V('rejected', 'malformed configuration (%s) raised %s instead of ValueError: %s' % (kind, type(e).__name__, str(e)[:100]),
                   what=kind, type=type(e).__name__))


def simplify(plan):
    for i, f in enumerate(plan.get('fields', [])):
        if f['channel'] == 'both':
            q = json.loads(json.dumps(plan))
            q['fields'][i]['channel'] = 'option'
            yield q
