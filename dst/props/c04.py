"""
C04 -- every accepted simulation step satisfies the implicit integration rule.

Engine: tds-sim.  Plan classes:
  mirror   seeded case x knobs x (stock or seeded mild) disturbances x resumed segments x solver-forced
           rejections (single, double, adjacent to events); oracles: rule mirror at every Newton iteration
           (recomputed from the simulator's own x0/f0 copies and an independently rebuilt mass matrix),
           acceptance <=> |inc| <= tol, accepted state == evaluation point - increment, rejection is a no-op,
           clock rewound, step-size envelope, end-to-end residual between consecutive accepted steps.
  enum     exhaustive single-fault placement: one forced rejection at *every* attempt index of a short
           disturbed run for three small cases (quick tier).
  stale    the solver's cached symbolic factor is declared stale once (ValueError) -> refactor path; the
           run must still satisfy all oracles.
  order    h, h/2, h/4 runs of smooth stock cases at tol 1e-11: final-state differences shrink at the
           method's order (trapezoid ~4, backward Euler ~2).
  complete stock schedule under varied knobs must run to tf and return True.
"""

import json

import numpy as np

from dst import core, gen, tdssim
from dst.core import stream
from dst.tdssim import V

PROP = 'C04'
LEVEL = 'exploration'
COUNTS = {'quick': 330, 'thorough': 10000}
BUDGET = {'quick': 110, 'thorough': 1500}
TIMEOUT = 240
SHRINK_LISTS = [['events'], ['faults'], ['segments_cut']]
EXPECTED_PROBES = ['tconst_altered_between_segments', 'tconst_altered_by_event', 'step_rejected', 'double_rejection', 'rejection_adjacent_to_event', 'stale_symbolic', 'resumed',
                   'limiter_held', 'order_measured', 'variable_step', 'backeuler']
RULE = ('plans of classes mirror/enum/stale/order/complete (see module doc); non-trivial = at least one accepted step '
        'after a disturbance or a forced rejection; distinct = (class, method, fixt, shrinkt, honest, g_scale>0, sparselib, '
        '#rejections, rejection adjacent to event, limiter held, resumed, case)')
ASSUMPTIONS = [
    'the rule mirror trusts the model-level t_const parameters and the limiter x_set lists as data; x0/f0 are the '
    'simulator\'s own copies taken at the entry of each attempt',
    'end-to-end residual bound uses 5*tol*(Tf + h*row sums of |fx|,|fy|) from the Jacobians at the end of the run',
    'order oracle only on smooth plans (no limiter switching, no chatter, no bus fault)',
]

ENUM_CASES = [
    ('kundur/kundur_full.xlsx', [{'model': 'Toggle', 'params': {'model': 'Line', 'dev': 'Line_8', 't': 0.1, 'idx': 'E1'}},
                                 {'model': 'Toggle', 'params': {'model': 'Line', 'dev': 'Line_8', 't': 0.2, 'idx': 'E2'}}]),
    ('ieee14/ieee14_esst3a.xlsx', [{'model': 'Fault', 'params': {'bus': 9, 'tf': 0.1, 'tc': 0.15, 'xf': 0.05, 'idx': 'E1'}}]),
    ('smib/SMIB.xlsx', [{'model': 'Toggle', 'params': {'model': 'Line', 'dev': 'Line_2', 't': 0.1, 'idx': 'E1'}}]),
]
ENUM_TF = 0.3
ORDER_CASES = [('kundur/kundur_full.xlsx', 2.5), ('ieee14/ieee14_linetrip.xlsx', 1.6), ('wecc/wecc_gencls.xlsx', 1.5),
               ('kundur/kundur_sexs.xlsx', 2.5), ('ieee14/ieee14_gentrip.xlsx', 2.5)]


def plans(seed, tier, count):
    out = []
    if tier == 'quick' or True:
        # exhaustive single-fault placement (attempt indices are over-provisioned; indices beyond the run are no-ops)
        for ci, (case, evs) in enumerate(ENUM_CASES):
            for k in range(0, 26):
                out.append({'property': PROP, 'cls': 'enum', 'seed': core.H('enum', ci, k), 'case': case,
                            'knobs': {'TDS.tstep': 1 / 30}, 'channels': {}, 'disable_stock_events': True,
                            'events': evs, 'tf': ENUM_TF, 'segments_cut': [],
                            'faults': [{'seam': 'solver', 'kind': 'reject', 'at_attempt': k}]})
    i = 0
    while len(out) < count:
        out.append({'stub': True, 'seed': core.H(seed, PROP, i), 'tier': tier})
        i += 1
    return out


def elaborate(stub):
    seed = stub['seed']
    r = stream(seed, 'class')
    x = r.random()
    cls = 'mirror' if x < 0.70 else ('stale' if x < 0.78 else ('complete' if x < 0.92 else 'order'))
    rng = stream(seed, 'case')
    if cls == 'order':
        case, tf = rng.choice(ORDER_CASES)
        method = rng.choice(['trapezoid', 'backeuler'])
        return {'property': PROP, 'cls': 'order', 'seed': seed, 'case': case, 'tf': tf,
                'knobs': {'TDS.method': method, 'TDS.tol': 1e-11, 'TDS.honest': 1, 'TDS.tstep': rng.choice([1 / 30, 1 / 60, 0.02])},
                'channels': {}, 'explicit_init': rng.random() < 0.3, 'events': [], 'faults': [], 'segments_cut': []}
    case = gen.pick_case(rng, include_big=(stub.get('tier') == 'thorough' and rng.random() < 0.1))
    knobs = gen.pick_knobs(stream(seed, 'knobs'))
    if stream(seed, 'shrink').random() < 0.08:
        knobs['TDS.shrinkt'] = 0
    channels = gen.pick_channels(stream(seed, 'channels'), knobs)
    sp = stream(seed, 'span')
    tf = sp.choice([1.3, 1.6, 2.2, 2.5])
    segs = gen.draw_segments(stream(seed, 'splits'), tf, knobs['TDS.tstep'], max_seg=3) if cls != 'complete' else [tf]
    plan = {'property': PROP, 'cls': cls, 'seed': seed, 'case': case['case'], 'knobs': knobs, 'channels': channels,
            'disable_stock_events': False, 'tf': tf, 'segments_cut': segs[:-1], 'events': [], 'faults': []}
    if cls == 'mirror' and stream(seed, 'stock').random() < 0.4:
        plan['disable_stock_events'] = True
        plan['_need_devices'] = True
    bt = stream(seed, 'between')
    if cls == 'mirror' and len(segs) > 1 and bt.random() < 0.5:
        # the user alters a time constant of a differential equation between two resumed segments
        plan['between'] = [{'kind': 'alter_tconst', 'after_segment': bt.randrange(len(segs) - 1), 'pick': round(bt.random(), 4),
                            'pick_dev': round(bt.random(), 4), 'factor': bt.choice([0.6, 0.8, 1.3, 1.8])}]
    fr = stream(seed, 'faults.solver')
    nsteps = max(4, int(tf / knobs['TDS.tstep']))
    if cls == 'mirror' and fr.random() < 0.7:
        k = fr.randint(0, nsteps)
        plan['faults'].append({'seam': 'solver', 'kind': 'reject', 'at_attempt': k})
        if fr.random() < 0.4:
            plan['faults'].append({'seam': 'solver', 'kind': 'reject', 'at_attempt': k + 1})   # double rejection
        if fr.random() < 0.3:
            plan['faults'].append({'seam': 'solver', 'kind': 'reject', 'at_attempt': fr.randint(0, nsteps)})
        # rejections adjacent to the stock events (t = 1.0 .. 2.0 with eps neighbours)
        if fr.random() < 0.4:
            k0 = int(1.0 / knobs['TDS.tstep'])
            plan['faults'].append({'seam': 'solver', 'kind': 'reject', 'at_attempt': k0 + fr.randint(0, 4)})
    if cls == 'stale':
        plan['faults'].append({'seam': 'solver', 'kind': 'stale', 'at_attempt': fr.randint(1, nsteps)})
        plan['knobs'].pop('TDS.sparselib', None)
        plan['knobs'].pop('PFlow.sparselib', None)
        plan['knobs']['TDS.sparselib'] = fr.choice(['klu', 'umfpack'])
        plan['channels']['TDS.sparselib'] = 'option'
        plan['knobs'].pop('TDS.linsolve', None)
    if cls in ('complete', 'stale'):
        # completion is required at the default tolerance (tight tolerances make some stock fault cases
        # with hard discontinuities non-convergent on the pinned tree: not a property of the integration rule)
        plan['knobs'].pop('TDS.shrinkt', None)
        plan['knobs'].pop('TDS.tol', None)
        plan['channels'].pop('TDS.tol', None)
    return plan


def _finish(plan, probe):
    seed = plan['seed']
    case = next(c for c in gen.catalogue()['cases'] if c['case'] == plan['case'])

    def idx_of(model):
        mdl = probe.models.get(model)
        return list(mdl.idx.v) if mdl is not None else []
    evs, classes = gen.draw_events(stream(seed, 'events'), case, plan['tf'], plan['knobs']['TDS.tstep'],
                                   plan['segments_cut'], n_max=3, idx_of=idx_of, tconst=True)
    from dst.props.c06 import _jsonable
    plan['events'] = [_jsonable(e) for e in evs]
    plan.pop('_need_devices', None)
    return plan


# --------------------------------------------------------------------------------------------

def o_end_to_end(hist, ss, plan):
    """Between consecutive accepted attempts k, k+1: the rule holds with F evaluated by the first iteration of the next attempt."""
    out = []
    att = [a for a in hist['attempts']]
    tds = ss.TDS
    tol = tds.config.tol
    n = ss.dae.n
    if n == 0:
        return out, 0
    theta = 0.5 if tds.config.method == 'trapezoid' else 1.0
    from dst.seams import independent_tf
    Tf = independent_tf(ss)
    try:
        fx = np.abs(np.array(_dense(ss.dae.fx)))
        fy = np.abs(np.array(_dense(ss.dae.fy)))
        rs = fx.sum(axis=1) + fy.sum(axis=1)
    except Exception:
        return out, 0
    sw = set()
    for e in hist['events']:
        for t in e['timers'].values():
            sw.update([t, t - 1e-4, t + 1e-4])
    sw = sorted(sw)
    checked = 0
    worst = 0.0
    for i in range(len(att) - 2):
        a, b, c = att[i], att[i + 1], att[i + 2]
        if not (a['converged'] and b['converged']):
            continue
        if a['chatter'] or b['chatter'] or b.get('forced_reject') or c.get('forced_reject'):
            continue
        if b['h'] <= 0 or b['t'] <= 0 or a['t'] <= 0:
            continue
        # skip pairs around a switching instant or a resume boundary
        if any(abs(a['t'] - s) < 1e-9 or abs(b['t'] - s) < 1e-9 for s in sw):
            continue
        if a['resumed'] != b['resumed'] or b['resumed'] != c['resumed']:
            continue
        if len(b['x1']) != n or len(a['x1']) != n:
            continue
        # the rule is only defined step-wise for a right-hand side without discrete switching in between
        if not np.array_equal(a['z'], b['z']):
            continue
        # f copies taken by the recorder at the end of the accepted attempts (never tds.f0)
        Fk, Fk1 = a['f1'], b['f1']
        h = b['h']
        if b.get('tf') is not None and len(b['tf']) == n:
            Tf = b['tf']            # time constants may have been altered during the run
        if theta == 0.5:
            res = Tf * (b['x1'] - a['x1']) - h * 0.5 * (Fk1 + Fk)
        else:
            res = Tf * (b['x1'] - a['x1']) - h * Fk1
        held = set(a.get('held', ())) | set(b.get('held', ())) | set(c.get('held', ()))
        bound = 5 * tol * (np.abs(Tf) + h * rs) + 1e-10
        ratio = np.abs(res) / bound
        for j in held:
            if 0 <= int(j) < n:
                ratio[int(j)] = 0.0
        checked += 1
        w = float(np.max(ratio))
        worst = max(worst, w)
        if w > 1.0:
            j = int(np.argmax(ratio))
            out.append(V('end_to_end', 'accepted step %.6f->%.6f (h=%.4g): |T dx - h*theta*(F1+F0)|=%.3g at %s exceeds bound %.3g' %
                         (a['t'], b['t'], h, abs(res[j]), ss.dae.x_name[j], bound[j]),
                         method=tds.config.method, what='rule_residual'))
            break
    hist['e2e_worst'] = worst
    return out, checked


def _dense(sp):
    from kvxopt import matrix
    return matrix(sp)


def run_order(plan):
    """Three runs at h, h/2, h/4; returns (violations, info)."""
    finals = []
    info = {}
    h0 = plan['knobs']['TDS.tstep']
    for div in (1, 2, 4):
        p = json.loads(json.dumps(plan))
        p['knobs']['TDS.tstep'] = h0 / div
        p['segments'] = [plan['tf']]
        ss, hist = tdssim.simulate(p, taps_kwargs={'check_mirror': False, 'persist': False})
        if not tdssim.run_ok(hist):
            return [], {'skipped': 'run failed'}
        if any(a['chatter'] for a in hist['attempts']) or any(a.get('held') for a in hist['attempts']):
            return [], {'skipped': 'not smooth (chatter or limiter held)'}
        finals.append(np.concatenate([ss.dae.x.copy(), ss.dae.y.copy()]))
        info['steps'] = info.get('steps', 0) + hist['n_attempts']
    d1 = float(np.max(np.abs(finals[0] - finals[1])))
    d2 = float(np.max(np.abs(finals[1] - finals[2])))
    info.update(d1=d1, d2=d2)
    tol = plan['knobs']['TDS.tol']
    if d2 < 1000 * tol or d1 < 1000 * tol:
        info['skipped'] = 'differences below resolution'
        return [], info
    ratio = d1 / d2
    info['ratio'] = ratio
    lo, hi = (2.9, 5.6) if plan['knobs']['TDS.method'] == 'trapezoid' else (1.2, 2.8)
    if not (lo <= ratio <= hi):
        return [V('order', 'final-state differences %.3g (h vs h/2) and %.3g (h/2 vs h/4): ratio %.2f outside [%.2f, %.2f] '
                  'for %s' % (d1, d2, ratio, lo, hi, plan['knobs']['TDS.method']),
                  method=plan['knobs']['TDS.method'], what='ratio')], info
    return [], info


def execute(plan):
    if plan.get('stub'):
        plan = elaborate(plan)
    if plan.get('_need_devices'):
        from dst.world import build_system
        plan = _finish(plan, build_system(plan['case'], setup=False))
    res = {'plan': plan, 'violations': []}
    if plan['cls'] == 'order':
        v, info = run_order(plan)
        res['violations'] = v
        res['probes'] = {'order_measured': int('ratio' in info), 'order_skipped': int('skipped' in info),
                         'backeuler': int(plan['knobs']['TDS.method'] == 'backeuler')}
        res['sig'] = json.dumps(['order', plan['case'], plan['knobs']['TDS.method'], plan['knobs']['TDS.tstep']])
        res['nontrivial'] = 'ratio' in info
        res['steps'] = info.get('steps', 0)
        res['sim_seconds'] = 3 * plan['tf']
        res['digest'] = core.Digest().hex() if 'ratio' not in info else '%r' % info.get('ratio')
        res['order_info'] = info
        return res
    run_plan = dict(plan)
    run_plan['segments'] = list(plan.get('segments_cut', [])) + [plan['tf']]
    ss, hist = tdssim.simulate(run_plan)
    res['violations'] = list(hist['violations'])
    try:
        if not hist['pf']:
            res.update(precondition_unmet=1, nontrivial=False, sig='pf-failed', digest='pf-failed')
            return res
        v = res['violations']
        v += tdssim.o_rule_mirror(hist)
        v += tdssim.o_solver_axb(hist)
        v += tdssim.o_acceptance(hist, ss)
        v += tdssim.o_reject_noop(hist)
        v += tdssim.o_continuity(hist)
        v += tdssim.o_h_envelope(hist, ss, plan)
        e2e, n_e2e = o_end_to_end(hist, ss, plan)
        v += e2e
        v += tdssim.o_success_consistent(hist)
        rej = [a for a in hist['attempts'] if not a['converged'] and a['h'] > 0]
        shrink = plan['knobs'].get('TDS.shrinkt', 1)
        natural_rej = [a for a in rej if not a.get('forced_reject')]
        if 'TDS.tol' not in plan['knobs'] and (
                plan['cls'] in ('complete', 'enum', 'stale') or
                (plan['cls'] == 'mirror' and not plan['disable_stock_events'] and not plan['events'] and not plan.get('between'))):
            # well-posed stable plan (stock schedule, measured to run on the pinned tree): must complete,
            # unless a forced rejection meets shrinkt=0 (then failure is the documented outcome)
            forced_fatal = (shrink == 0 and plan['knobs'].get('TDS.fixt', 1) == 1 and
                            any(a.get('forced_reject') for a in hist['attempts']))
            if not forced_fatal:
                v += tdssim.o_completion(hist, plan)
        ev_t = sorted({t for e in hist['events'] if e['u'] == 1 for t in e['timers'].values()})
        adj = sum(1 for a in rej if any(abs(a['t'] - s) < 2.5e-4 for s in ev_t))
        dbl = sum(1 for i in range(len(hist['attempts']) - 1)
                  if not hist['attempts'][i]['converged'] and not hist['attempts'][i + 1]['converged'])
        held = any(a.get('held') for a in hist['attempts'])
        res['probes'] = {
            'step_rejected': len(rej), 'natural_rejection': len(natural_rej), 'double_rejection': dbl,
            'rejection_adjacent_to_event': adj,
            'stale_symbolic': hist['faults_fired'].get('stale_symbolic', 0),
            'resumed': max(0, len(hist['segments']) - 1), 'limiter_held': int(held),
            'variable_step': int(plan['knobs'].get('TDS.fixt', 1) == 0),
            'backeuler': int(plan['knobs'].get('TDS.method') == 'backeuler'),
            'e2e_pairs_checked': n_e2e, 'run_aborted': int(not tdssim.run_ok(hist)),
            'first_step_checked': int(bool(hist['attempts']) and hist['attempts'][0]['iters'] > 0),
            'tconst_altered_between_segments': (hist.get('probes') or {}).get('tconst_altered_between_segments', 0),
            'tconst_altered_by_event': sum(1 for e_ in plan.get('events', []) if e_['model'] == 'Alter' and e_['params'].get('src') == 'M'
                                           and e_['params'].get('u', 1) == 1 and 0 <= e_['params']['t'] <= tdssim.t_reached(hist)),
        }
        res['e2e_worst'] = hist.get('e2e_worst', 0.0)
        res['faults'] = dict(hist['faults_fired'])
        k = plan['knobs']
        res['sig'] = json.dumps([plan['cls'], plan['case'], k.get('TDS.method', 'trapezoid'), k.get('TDS.fixt', 1),
                                 k.get('TDS.shrinkt', 1), k.get('TDS.honest', 0), k.get('TDS.g_scale', 1) > 0,
                                 k.get('TDS.sparselib', 'klu'), min(len(rej), 3), adj > 0, held,
                                 len(hist['segments']) > 1, [f['at_attempt'] for f in plan['faults']] if plan['cls'] == 'enum' else 0])
        res['nontrivial'] = len(rej) > 0 or any(r['enabled'] == 1 for r in hist['timer_log'])
        res['sim_seconds'] = tdssim.t_reached(hist)
        res['steps'] = hist['n_attempts']
        res['digest'] = tdssim.digest_of(hist, ss)
    finally:
        tdssim.cleanup(hist)
    return res


def simplify(plan):
    from dst.props.c06 import simplify as s6
    yield from s6(plan)


def extra_coverage(results, tier):
    worst = max([r.get('e2e_worst', 0.0) for r in results] + [0.0])
    ratios = [r['order_info']['ratio'] for r in results if r.get('order_info', {}).get('ratio')]
    enum = sum(1 for r in results if (r.get('plan') or {}).get('cls') == 'enum')
    return {'end_to_end_worst_ratio_to_bound': worst, 'order_ratios': [round(x, 3) for x in ratios][:40],
            'exhaustive_subspaces': ['single forced rejection at every attempt index 0..25 of a 0.3 s disturbed run for %d '
                                     'cases (%d plans)' % (len(ENUM_CASES), enum)]}
