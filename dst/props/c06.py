"""
C06 -- scheduled events fire exactly once at their exact time; the time grid is exact.

Engine: tds-sim.  One seed decides the case, knobs and their delivery channel, 0-8 event devices drawn
from named time classes (t0, tf, on/off grid, ulp neighbours, coincident, within eps, beyond tf, negative,
at / just before / just after a resume boundary), the split of the run into resumed segments, and solver-
forced step rejections adjacent to events.  Oracles: firing log == executable schedule model (exactly once,
exact time, enabled only), effect on exactly the addressed device, persistence at every step start, exact
grid (strictly increasing, event times present, ends at tf), no accepted step crosses an event.
"""

import json

from dst import core, gen, tdssim
from dst.core import stream

PROP = 'C06'
LEVEL = 'exploration'
COUNTS = {'quick': 360, 'thorough': 12000}
BUDGET = {'quick': 110, 'thorough': 1500}
TIMEOUT = 150
SHRINK_LISTS = [['events'], ['faults'], ['segments_cut']]
EXPECTED_PROBES = ['line_effect_checked', 'line_switched_in_after_offline_at_load', 'event_enabled_after_init', 'enabled_after_init_fired', 'event_disabled_after_init', 'event_fired', 'resumed', 'step_rejected', 'coincident_events', 'event_at_boundary',
                   'disabled_event', 'variable_step']
RULE = ('plan = seeded (stock case, knobs+channels, event devices from 14 time classes, resume boundaries, forced '
        'rejections); non-trivial = at least one event fired; distinct = coverage signature (sorted multiset of '
        '(event kind, time class, enabled), fixed/variable step, number of segments, forced rejection present)')
ASSUMPTIONS = [
    'event devices are read back from the loaded System as input data for the reference schedule model',
    'stability of the disturbed case is not assumed: when a run aborts, only events up to the time reached are required',
    'TimerParam.callback wrappers and TDS.callpert do not perturb the run (bit-identical results measured)',
]


def plans(seed, tier, count):
    out = []
    # fixed regression plans first
    out.extend(json.loads(json.dumps(p)) for p in REGRESSION)
    for i in range(count - len(out)):
        out.append({'stub': True, 'seed': core.H(seed, PROP, i), 'tier': tier})
    return out[:max(count, len(REGRESSION))]


def elaborate(stub):
    seed = stub['seed']
    rng = stream(seed, 'case')
    case = gen.pick_case(rng, include_big=(stub.get('tier') == 'thorough' and rng.random() < 0.1))
    knobs = gen.pick_knobs(stream(seed, 'knobs'))
    channels = gen.pick_channels(stream(seed, 'channels'), knobs)
    tstep = knobs['TDS.tstep']
    r = stream(seed, 'span')
    tf = r.choice([1.0, 1.5, 2.0, 2.5, 3.0])
    if r.random() < 0.03:
        tf = 10.4    # times > 10 s
        knobs['TDS.tstep'] = 0.05
        tstep = 0.05
    segs = gen.draw_segments(stream(seed, 'splits'), tf, tstep)
    plan = {'property': PROP, 'seed': seed, 'case': case['case'], 'knobs': knobs, 'channels': channels,
            'disable_stock_events': stream(seed, 'stock').random() < 0.5,
            'tf': tf, 'segments_cut': segs[:-1], 'events': [], 'faults': [], '_classes': [], '_need_devices': True}
    bt = stream(seed, 'between')
    if len(segs) > 1 and bt.random() < 0.6:
        # between two resumed segments the user puts an event whose time has not come yet in or out of service
        plan['between'] = [{'kind': 'set_event_u', 'after_segment': bt.randrange(len(segs) - 1), 'pick': round(bt.random(), 4),
                            'u': bt.choice([1, 1, 1, 0]), 'horizon': tf}]
        if bt.random() < 0.3:
            plan['between'].append({'kind': 'set_event_u', 'after_segment': bt.randrange(len(segs) - 1), 'pick': round(bt.random(), 4),
                                    'u': bt.choice([1, 0]), 'horizon': tf})
    return plan


def _finish(plan, ss_probe):
    """Second elaboration stage: needs device indices of the loaded case."""
    seed = plan['seed']
    case = next(c for c in gen.catalogue()['cases'] if c['case'] == plan['case'])

    def idx_of(model):
        mdl = ss_probe.models.get(model)
        return list(mdl.idx.v) if mdl is not None else []
    evs, classes = gen.draw_events(stream(seed, 'events'), case, plan['tf'], plan['knobs']['TDS.tstep'],
                                   plan['segments_cut'], idx_of=idx_of)
    ol = stream(seed, 'offline')
    lines = idx_of('Line')
    if lines and ol.random() < 0.3:
        # a line that the case brings out of service is switched in by an event of the plan
        dev = ol.choice(lines)
        plan['offline_at_load'] = [['Line', dev]]
        t = round(ol.uniform(0.1, plan['tf'] - 0.05), ol.choice([1, 2, 4]))
        evs.append({'model': 'Toggle', 'params': {'model': 'Line', 'dev': dev, 't': t, 'u': 1, 'idx': 'DST_On_0'}})
        classes.append('switch_in')
    plan['events'] = [_jsonable(e) for e in evs]
    plan['_classes'] = classes
    fr = stream(seed, 'faults.solver')
    if fr.random() < 0.35:
        nsteps = int(plan['tf'] / plan['knobs']['TDS.tstep'])
        for _ in range(fr.choice([1, 1, 2])):
            plan['faults'].append({'seam': 'solver', 'kind': 'reject', 'at_attempt': fr.randint(1, max(2, nsteps))})
    plan.pop('_need_devices', None)
    return plan


def _jsonable(e):
    p = {}
    for k, v in e['params'].items():
        if hasattr(v, 'item'):
            v = v.item()
        p[k] = v
    return {'model': e['model'], 'params': p}


def execute(plan):
    if plan.get('stub'):
        plan = elaborate(plan)
    if plan.get('_need_devices'):
        from dst.world import build_system
        probe = build_system(plan['case'], setup=False)
        plan = _finish(plan, probe)
    run_plan = dict(plan)
    run_plan['segments'] = list(plan.get('segments_cut', [])) + [plan['tf']]
    ss, hist = tdssim.simulate(run_plan)
    res = {'plan': plan, 'violations': list(hist['violations'])}
    try:
        if not hist['pf']:
            res['precondition_unmet'] = 1
            res['nontrivial'] = False
            res['sig'] = 'pf-failed'
            res['digest'] = 'pf-failed'
            return res
        v = res['violations']
        v += tdssim.o_exactly_once(hist)
        v += tdssim.o_effects(hist, ss)
        v += tdssim.o_persistence(hist, ss)
        v += tdssim.o_grid(hist, ss)
        v += [x for x in tdssim.o_h_envelope(hist, ss, plan) if x['sig'].get('what') in ('crosses_event', 'past_tf', 'negative_h')]
        v += tdssim.o_success_consistent(hist)
        fired = [r for r in hist['timer_log'] if r['enabled'] == 1]
        times = [r['t'] for r in fired]
        res['probes'] = {
            'event_fired': len(fired),
            'resumed': max(0, len(hist['segments']) - 1),
            'step_rejected': sum(1 for a in hist['attempts'] if not a['converged']),
            'coincident_events': len(times) - len(set(times)),
            'event_at_boundary': sum(1 for t in times if t in plan.get('segments_cut', [])),
            'disabled_event': sum(1 for e in hist['events'] if e['u'] != 1),
            'variable_step': int(plan['knobs'].get('TDS.fixt', 1) == 0),
            'run_aborted': int(not tdssim.run_ok(hist)),
            'toggle_fired': sum(1 for r in fired if r['model'] == 'Toggle'),
            'fault_fired': sum(1 for r in fired if r['model'] == 'Fault'),
            'alter_fired': sum(1 for r in fired if r['model'] == 'Alter'),
            'event_enabled_after_init': (hist.get('probes') or {}).get('event_enabled_after_init', 0),
            'event_disabled_after_init': (hist.get('probes') or {}).get('event_disabled_after_init', 0),
            'enabled_after_init_fired': sum(1 for b_ in hist.get('between', []) if b_.get('u') == 1 and
                                            any(r['model'] == b_['event'][0] and r['idx'] == b_['event'][1] for r in fired)),
        }
        res['faults'] = dict(hist['faults_fired'])
        kinds = sorted((e['model'], c, e['params'].get('u', 1)) for e, c in
                       zip([e for e in plan['events'] if not str(e['params'].get('idx', '')).endswith('b')],
                           plan.get('_classes', [])))
        res['sig'] = json.dumps([kinds, plan['knobs'].get('TDS.fixt', 1), len(hist['segments']),
                                 bool(plan['faults'])], default=str)
        res['nontrivial'] = len(fired) > 0
        res['sim_seconds'] = tdssim.t_reached(hist)
        res['steps'] = hist['n_attempts']
        res['digest'] = tdssim.digest_of(hist, ss)
        # after the digest (re-evaluates the equations at the final state): statuses are what the network equations see
        if tdssim.run_ok(hist):
            le, n_le = tdssim.o_line_effect(ss)
            v += le
            res['probes']['line_effect_checked'] = n_le
            res['probes']['line_switched_in_after_offline_at_load'] = int(bool(plan.get('offline_at_load')) and any(
                r['model'] == 'Toggle' and r['idx'] == 'DST_On_0' for r in fired))
    finally:
        tdssim.cleanup(hist)
    return res


def simplify(plan):
    """Scalar simplifications tried by the minimiser (each keeps the plan valid)."""
    if plan.get('knobs') and len(plan['knobs']) > 1:
        for k in sorted(plan['knobs']):
            if k == 'TDS.tstep':
                continue
            q = json.loads(json.dumps(plan))
            del q['knobs'][k]
            q.get('channels', {}).pop(k, None)
            yield q
    if any(c != 'option' for c in plan.get('channels', {}).values()):
        q = json.loads(json.dumps(plan))
        q['channels'] = {k: 'option' for k in q.get('channels', {})}
        yield q
    if not plan.get('disable_stock_events'):
        q = json.loads(json.dumps(plan))
        q['disable_stock_events'] = True
        yield q
    for i, e in enumerate(plan.get('events', [])):
        for key in ('t', 'tf', 'tc'):
            t = e['params'].get(key)
            if isinstance(t, float) and round(t, 2) != t:
                q = json.loads(json.dumps(plan))
                q['events'][i]['params'][key] = round(t, 2)
                yield q


REGRESSION = [
    {'property': PROP, 'seed': 4, 'case': 'kundur/kundur_full.xlsx', 'knobs': {'TDS.tstep': 1 / 30},
     'channels': {}, 'disable_stock_events': True, 'tf': 2.5, 'segments_cut': [1.0],
     'events': [{'model': 'Toggle', 'params': {'model': 'Line', 'dev': 'Line_3', 't': 1.5, 'u': 0, 'idx': 'R5'}}],
     'between': [{'kind': 'set_event_u', 'after_segment': 0, 'pick': 0.0, 'u': 1, 'horizon': 2.5},
                 {'kind': 'set_event_u', 'after_segment': 0, 'pick': 0.9, 'u': 1, 'horizon': 2.5}],
     'faults': [], '_classes': ['inside']},
    # event exactly at t0 (dropped on the pinned tree: known finding), at tf, coincident pair, disabled event
    {'property': PROP, 'seed': 1, 'case': 'kundur/kundur_full.xlsx', 'knobs': {'TDS.tstep': 1 / 30},
     'channels': {}, 'disable_stock_events': True, 'tf': 1.0, 'segments_cut': [],
     'events': [{'model': 'Toggle', 'params': {'model': 'Line', 'dev': 'Line_3', 't': 0.0, 'idx': 'R0'}}],
     'faults': [], '_classes': ['t0']},
    {'property': PROP, 'seed': 2, 'case': 'kundur/kundur_full.xlsx', 'knobs': {'TDS.tstep': 1 / 30},
     'channels': {}, 'disable_stock_events': True, 'tf': 1.0, 'segments_cut': [0.5],
     'events': [{'model': 'Toggle', 'params': {'model': 'Line', 'dev': 'Line_3', 't': 0.5, 'idx': 'R1'}},
                {'model': 'Toggle', 'params': {'model': 'Line', 'dev': 'Line_3', 't': 1.0, 'idx': 'R2'}},
                {'model': 'Toggle', 'params': {'model': 'Line', 'dev': 'Line_4', 't': 0.5, 'u': 0, 'idx': 'R3'}}],
     'faults': [], '_classes': ['boundary', 'tf', 'coincident']},
    {'property': PROP, 'seed': 3, 'case': 'ieee14/ieee14_fault.xlsx', 'knobs': {'TDS.tstep': 0.01, 'TDS.fixt': 0},
     'channels': {}, 'disable_stock_events': False, 'tf': 1.5, 'segments_cut': [1.05],
     'events': [{'model': 'Alter', 'params': {'model': 'PQ', 'dev': 'PQ_1', 'src': 'Ppf', 'attr': 'v', 't': 1.05,
                                              'method': '*', 'amount': 1.05, 'idx': 'R4'}}],
     'faults': [{'seam': 'solver', 'kind': 'reject', 'at_attempt': 20}], '_classes': ['boundary']},
]
