"""
C13 -- case files round-trip (round-trip-as-cold-restart clause).

Engine: restart-sim.  A loaded stock case is exported (json to an in-memory stream or a file, xlsx to a file in a
scratch directory), optionally hit by a storage fault (truncation at a seeded byte, lost write = empty file), and a *new* System is built from the export alone (same process or, in the thorough tier,
a fresh interpreter).  Oracles, fault-free: every exported parameter of every model equal field by field (input-base
values; NaN / None / list-valued / index types normalised), same number of devices, power-flow solution equal to
1e-12, dynamic-initialisation residual vector equal; chains xlsx -> json -> xlsx and json -> xlsx -> json are
idempotent after the first hop.  With a fault: the load raises or returns None (andes.run(cli=True) != 0) or yields an
equal system -- never a silently different one.  Not claimed: parser-vs-independent-reading of RAW/DYR/MATPOWER.
"""

import io
import json
import os

import numpy as np

from dst import core, gen
from dst.core import stream
from dst.tdssim import V
from dst.world import build_system, catalogue, scratch_dir

PROP = 'C13'
LEVEL = 'exploration'
COUNTS = {'quick': 260, 'thorough': 6000}
BUDGET = {'quick': 110, 'thorough': 1500}
TIMEOUT = 240
SHRINK_LISTS = [['hops'], ['files'], ['ops'], ['pre_ops']]
EXPECTED_PROBES = ['roundtrip_json', 'roundtrip_xlsx', 'chain', 'pf_compared', 'init_compared', 'truncated', 'lost_write',
                   'load_failed_loudly', 'params_compared', 'rewrites_compared',
                   'mpc_roundtrip', 'mpc_pf_compared', 'mpc_two_on_one_bus', 'mpc_offline_PQ', 'pre_alter', 'pre_set_alter_same', 'pre_status_off']
RULE = ('plan = (stock case incl. raw/dyr and matpower sources, hop sequence over {json, xlsx}, stream or file, optional storage fault); '
        'non-trivial = at least one reload was compared or a fault was injected; distinct = (case, hops, fault kind)')
ASSUMPTIONS = [
    'equality is judged on exported (input-base) parameters; parameters declared non-exported are not part of a case file',
    'bit flips are not injected: neither format carries a checksum over names and numbers (a flipped digit or a flipped sheet name in '
    'the xlsx directory yields another well-formed file), so no detection can be demanded; truncation and lost writes are injected',
]
SOURCES = ['ieee14/ieee14.raw', 'kundur/kundur.raw', 'matpower/case14.m', 'matpower/case5.m', 'wscc9/wscc9.raw']


# the same path written again with other content and read again in the same process (a reader must not answer from memory)
REWRITE = {
    'raw': ['ieee14/ieee14.raw', 'kundur/kundur.raw', 'wscc9/wscc9.raw', 'ieee39/ieee39.raw', 'wscc9/wscc9_3wxfr.raw'],
    'm': ['matpower/case14.m', 'matpower/case5.m', 'matpower/case118.m'],
    'json': ['5bus/pjm5bus.json', 'kundur/kundur_full.json', 'ieee14/ieee14.json', 'smib/SMIB.json'],
    'xlsx': ['kundur/kundur_full.xlsx', 'ieee14/ieee14_fault.xlsx', 'wscc9/wscc9.xlsx', 'smib/SMIB.xlsx'],
    'dyr': ['kundur/kundur_full.dyr', 'kundur/kundur_gencls.dyr'],       # with kundur/kundur.raw
}


def all_cases():
    return [c['case'] for c in catalogue()['cases'] if not c.get('error') and c.get('pf')] + SOURCES


def plans(seed, tier, count):
    out = []
    cs = all_cases()
    for i, c in enumerate(cs):
        if c in gen.BIG:
            continue
        out.append({'property': PROP, 'seed': core.H('fix13', i), 'case': c, 'hops': ['json' if i % 2 else 'xlsx'], 'via': 'file', 'fault': None})
    for j, (ext, files) in enumerate(sorted(REWRITE.items())):
        out.insert(j, {'property': PROP, 'seed': core.H('fix13rw', j), 'kind': 'rewrite', 'ext': ext, 'files': files[:2] + files[:1]})
    for j, (c, fmt, pre) in enumerate([
            ('ieee14/ieee14.json', 'json', [{'op': 'status_off', 'target': 'Line.x', 'pick': 0.0, 'factor': 1.0},
                                            {'op': 'set_alter_same', 'target': 'PQ.p0', 'pick': 0.3, 'factor': 1.5}]),
            ('kundur/kundur_full.xlsx', 'xlsx', [{'op': 'set_alter_same', 'target': 'GENROU.M', 'pick': 0.5, 'factor': 0.9},
                                                 {'op': 'alter', 'target': 'PQ.q0', 'pick': 0.9, 'factor': 1.1}])]):
        out.insert(j, {'property': PROP, 'seed': core.H('fix13pre', j), 'case': c, 'hops': [fmt], 'via': 'file', 'fault': None, 'pre_ops': pre})
    for j, (c, ops, mode) in enumerate(MPC_FIXED):
        out.insert(j, {'property': PROP, 'seed': core.H('fix13mpc', j), 'kind': 'mpc', 'case': c, 'ops': ops, 'bus_idx': mode, 'order': 'file'})
    i = 0
    while len(out) < count:
        out.append({'stub': True, 'seed': core.H(seed, PROP, i), 'tier': tier})
        i += 1
    return out[:max(count, 1)]


def elaborate(stub):
    seed = stub['seed']
    r = stream(seed, 'case')
    w = stream(seed, 'rewrite')
    if w.random() < 0.12:
        ext = w.choice(sorted(REWRITE))
        files = [w.choice(REWRITE[ext]) for _ in range(w.choice([2, 3, 4]))]
        return {'property': PROP, 'seed': seed, 'kind': 'rewrite', 'ext': ext, 'files': files}
    m = stream(seed, 'mpc')
    if m.random() < 0.15:
        cs = [c for c in all_cases() if c not in gen.BIG or m.random() < 0.3]
        ops = []
        for _ in range(m.choice([0, 1, 1, 2, 3])):
            kind = m.choice(['off', 'off', 'dup', 'alter', 'alter'])
            if kind == 'off':
                ops.append(['off', m.choice(['PQ', 'PQ', 'Shunt', 'Line', 'PV']), round(m.random(), 4)])
            elif kind == 'dup':
                ops.append(['dup', m.choice(['PQ', 'PQ', 'Shunt']), round(m.random(), 4), round(m.uniform(0.2, 1.5), 3)])
            else:
                ops.append(['alter', m.choice(['PQ.p0', 'PQ.q0', 'PV.p0', 'PV.v0', 'Shunt.b']), round(m.random(), 4), round(m.uniform(0.7, 1.2), 3)])
        return {'property': PROP, 'seed': seed, 'kind': 'mpc', 'case': m.choice(cs), 'ops': ops,
                'bus_idx': m.choice(['keep', 'keep', 'str', 'int']), 'order': m.choice(['file', 'file', 'shuffle'])}
    cs = [c for c in all_cases() if c not in gen.BIG or (stub.get('tier') == 'thorough' and r.random() < 0.3)]
    case = r.choice(cs)
    hops = [r.choice(['json', 'xlsx']) for _ in range(r.choice([1, 1, 2, 3]))]
    fault = None
    if r.random() < 0.35:
        fault = {'kind': r.choice(['truncate', 'truncate', 'lost']), 'frac': round(r.random(), 4), 'bit': r.randint(0, 7)}
        if fault['kind'] == 'flip':
            hops[-1] = 'xlsx'
    po = stream(seed, 'pre_ops')
    pre_ops = []
    if fault is None and po.random() < 0.45:
        # the system is not exported as loaded: parameters were altered through the public calls first (mid-life export)
        for _ in range(po.choice([1, 1, 2, 3])):
            pre_ops.append({'op': po.choice(['alter', 'alter', 'set_alter_same', 'status_off']), 'target': po.choice(PRE_TARGETS),
                            'pick': round(po.random(), 4), 'factor': po.choice([0.5, 0.9, 1.1, 1.5])})
    return {'property': PROP, 'seed': seed, 'case': case, 'hops': hops, 'via': r.choice(['file', 'stream']), 'fault': fault,
            'pre_ops': pre_ops, 'subprocess': stub.get('tier') == 'thorough' and r.random() < 0.1}


# --------------------------------------------------------------------------------------------

def norm(x):
    if x is None:
        return None
    if isinstance(x, (list, tuple, np.ndarray)):
        return [norm(i) for i in x]
    if isinstance(x, (float, np.floating)):
        return None if np.isnan(x) else float(x)
    if isinstance(x, (int, np.integer)):
        return float(x)
    if isinstance(x, str):
        try:
            return float(x)
        except ValueError:
            return x
    return x


def data_of(ss):
    out = {}
    for name, mdl in ss.models.items():
        if not mdl.n:
            continue
        d = {}
        for pn, p in mdl.params.items():
            if pn in mdl.params_ext or p.export is False:
                continue
            vals = p.vin if getattr(p, 'vin', None) is not None else p.v
            d[pn] = [norm(x) for x in vals]
        out[name] = d
    return out


def constraints_of(ss):
    out = {}
    for name, mdl in ss.models.items():
        for pn, p in mdl.num_params.items():
            pr = getattr(p, 'property', {})
            if pr.get('non_zero') or pr.get('non_positive') or pr.get('non_negative'):
                out[(name, pn)] = (norm(p.default), bool(pr.get('non_zero')), bool(pr.get('non_positive')), bool(pr.get('non_negative')))
    return out


def compare_data(a, b, where, v, probes, cons=None):
    if set(a) != set(b):
        v.append(V('roundtrip', '[%s] models with devices differ: only in original %s, only in reload %s' %
                   (where, sorted(set(a) - set(b))[:4], sorted(set(b) - set(a))[:4]), what='models'))
        return False
    n = 0
    for m in a:
        for pn in a[m]:
            if pn not in b[m]:
                v.append(V('roundtrip', '[%s] %s.%s missing after reload' % (where, m, pn), what='param_missing'))
                return False
            x, y = a[m][pn], b[m][pn]
            n += 1
            if len(x) != len(y):
                v.append(V('roundtrip', '[%s] %s has %d devices, reload has %d' % (where, m, len(x), len(y)), what='count'))
                return False
            for i, (p, q) in enumerate(zip(x, y)):
                same = (p == q) or (isinstance(p, float) and isinstance(q, float) and abs(p - q) <= 1e-12 * max(1.0, abs(p)))
                if not same:
                    what = 'value'
                    c = (cons or {}).get((m, pn))
                    if c is not None and isinstance(p, float) and q == c[0] and \
                            ((c[1] and p == 0) or (c[2] and p > 0) or (c[3] and p < 0)):
                        # the original value violates the parameter's declared sign / non-zero constraint; the check is only applied
                        # to float-typed input, so an integer cell of the source file slipped through and its float export did not
                        what = 'constraint_applied_on_reload_only'
                    v.append(V('roundtrip', '[%s] %s.%s[%d]: original %r, reload %r' % (where, m, pn, i, p, q), what=what,
                               kind='index' if pn in ('idx', 'bus', 'bus1', 'bus2', 'gen', 'syn', 'avr', 'name') else 'number'))
                    return False
    probes['params_compared'] = probes.get('params_compared', 0) + n
    return True


def export(ss, fmt, via, d, k):
    import andes
    import shutil
    # data files referenced relative to the case file travel with the export
    if ss.TimeSeries.n:
        for pth in ss.TimeSeries.path.v:
            src = pth if os.path.isabs(pth) else os.path.join(ss.files.case_path or '', pth)
            if os.path.isfile(src) and not os.path.isfile(os.path.join(d, os.path.basename(pth))):
                shutil.copy(src, os.path.join(d, os.path.basename(pth)))
    if fmt == 'json' and via == 'stream':
        buf = io.StringIO()
        andes.io.json.write(ss, buf)
        return ('stream', buf.getvalue())
    path = os.path.join(d, 'hop%d.%s' % (k, fmt))
    if fmt == 'json':
        andes.io.json.write(ss, path, overwrite=True)
    else:
        andes.io.xlsx.write(ss, path, overwrite=True)
    return ('file', path)


def reload(handle, fmt):
    import andes
    kind, val = handle
    if kind == 'stream':
        ss = andes.System(default_config=True, no_output=True, autogen_stale=False)
        andes.io.json.read(ss, io.StringIO(val))
        ss.setup()
        return ss
    return andes.load(val, no_output=True, default_config=True, autogen_stale=False)


def run_rewrite(plan, res, v, probes, d):
    """One path, rewritten with the content of several stock files in turn and read again each time in this process."""
    import andes
    import shutil
    ext = plan['ext']
    path = os.path.join(d, 'case.' + ('raw' if ext == 'dyr' else ext))
    dyr = os.path.join(d, 'case.dyr')
    refs = {}
    for k, src in enumerate(plan['files']):
        if ext == 'dyr':
            shutil.copyfile(os.path.join(os.path.dirname(andes.__file__), 'cases', 'kundur/kundur.raw'), path)
            shutil.copyfile(os.path.join(os.path.dirname(andes.__file__), 'cases', src), dyr)
            kw = {'addfile': dyr}
        else:
            shutil.copyfile(os.path.join(os.path.dirname(andes.__file__), 'cases', src), path)
            kw = {}
        if src not in refs:
            # reference: the stock file read from its own path
            if ext == 'dyr':
                r0 = andes.load(os.path.join(os.path.dirname(andes.__file__), 'cases', 'kundur/kundur.raw'),
                                addfile=os.path.join(os.path.dirname(andes.__file__), 'cases', src),
                                no_output=True, default_config=True, autogen_stale=False)
            else:
                r0 = build_system(src)
            refs[src] = data_of(r0)
        ss = andes.load(path, no_output=True, default_config=True, autogen_stale=False, **kw)
        if ss is None:
            v.append(V('reread', 'write %d (%s): loading the rewritten path returned None' % (k, src), what='none', ext=ext))
            break
        probes['rewrites_compared'] = probes.get('rewrites_compared', 0) + 1
        tmpv = []
        if not compare_data(refs[src], data_of(ss), 'write %d' % k, tmpv, probes):
            v.append(V('reread', 'the path was rewritten with the content of %s (write %d of %s) and read again in the same process, but '
                       'the system built is not that of the file: %s' % (src, k, plan['files'], tmpv[0]['detail'][:200]),
                       what='stale_or_wrong_content', ext=ext))
            break
    res['probes'] = probes
    res['faults'] = {'rewrite_same_path': max(0, len(plan['files']) - 1)}
    res['sig'] = json.dumps(['rewrite', ext, plan['files']])
    res['nontrivial'] = bool(probes.get('rewrites_compared', 0) >= 2)
    res['steps'] = len(plan['files'])
    dg = core.Digest()
    dg.add(res['sig'], sorted(core.vclass(x) for x in v), sorted(probes.items()))
    res['digest'] = dg.hex()
    return res


PRE_TARGETS = ['PQ.p0', 'PQ.q0', 'PV.p0', 'PV.v0', 'Line.x', 'Line.b', 'Shunt.b', 'Slack.v0', 'GENROU.M', 'GENROU.D', 'GENCLS.M', 'TGOV1.R',
               'EXDC2.KA', 'Toggle.t']
STATUS_TARGETS = {'PQ.p0': 'PQ', 'PQ.q0': 'PQ', 'Line.x': 'Line', 'Line.b': 'Line', 'Shunt.b': 'Shunt'}


def apply_pre_ops(ss, ref, ops, probes):
    """Alterations through the public calls before the export; ``ref`` (input-base data as loaded) follows by the book."""
    for op in ops:
        mname, pn = op['target'].split('.')
        mdl = ss.models.get(mname)
        if mdl is None or not mdl.n or mname not in ref:
            continue
        i = int(op['pick'] * mdl.n) % mdl.n
        idx = mdl.idx.v[i]
        if op['op'] == 'status_off':
            if op['target'] not in STATUS_TARGETS:
                continue
            # the status in effect is cleared directly, then confirmed through the alteration call (both representations must follow)
            mdl.set('u', idx, 'v', 0)
            mdl.alter('u', idx, 0)
            ref[mname]['u'][i] = 0.0
            probes['pre_status_off'] = probes.get('pre_status_off', 0) + 1
            continue
        p = mdl.params[pn]
        old_in = float(p.vin[i])
        new_in = old_in * op['factor']
        if op['op'] == 'set_alter_same':
            mdl.set(pn, idx, 'v', float(p.v[i]) * op['factor'])
        mdl.alter(pn, idx, new_in)
        ref[mname][pn][i] = norm(new_in)
        probes['pre_' + op['op']] = probes.get('pre_' + op['op'], 0) + 1


MPC_MODELS = ('Bus', 'PQ', 'PV', 'Slack', 'Shunt', 'Line', 'Area')
# (case, operations before the export, bus index typing): several loads / shunts on one bus, devices out of service
MPC_FIXED = [
    ('npcc/npcc.xlsx', [], 'keep'),
    ('ieee14/ieee14.json', [['off', 'PQ', 0.3], ['off', 'Shunt', 0.0]], 'keep'),
    ('ieee14/ieee14.json', [['dup', 'PQ', 0.0, 0.5], ['dup', 'Shunt', 0.6, 0.8]], 'keep'),
    ('kundur/kundur_full.xlsx', [['dup', 'PQ', 0.0, 0.02]], 'int'),
    ('ieee39/ieee39.xlsx', [['off', 'Line', 0.2], ['alter', 'PQ.p0', 0.5, 1.1]], 'int'),
    ('wscc9/wscc9.xlsx', [['off', 'PV', 0.9], ['alter', 'PV.v0', 0.1, 1.01]], 'str'),
    ('5bus/pjm5bus.json', [], 'str'),
]


def run_mpc(plan, res, v, probes):
    """
    MATPOWER export as a cold restart: the static network of a stock case (seeded bus-index typing and device order,
    seeded devices taken out of service / doubled on a bus / altered) -> system2mpc -> a new System built by
    mpc2system from the dict alone -> same power flow at every bus.
    """
    import andes
    from andes.io.matpower import mpc2system, system2mpc
    from dst import rebuild
    rng = stream(plan['seed'], 'mpc_build')
    ss0 = build_system(plan['case'], setup=False)
    rows = [(m, d) for m, d in rebuild.extract(ss0) if m in MPC_MODELS]
    other = sorted(m.class_name for m in ss0.models.values() if m.n and m.flags.pflow and m.class_name not in MPC_MODELS
                   and (m.algebs or m.algebs_ext) and m.group not in ('TimedEvent',))
    asym = any(abs(float(d.get(k, 0) or 0)) > 0 for m, d in rows if m == 'Line' for k in ('g', 'g1', 'g2', 'b1', 'b2'))
    res['sig'] = json.dumps(['mpc', plan['case'], plan['ops'], plan['bus_idx']])
    if other or asym or abs(float(ss0.config.mva) - 100.0) > 0:
        # devices or branch data the MATPOWER format cannot hold: not a precondition of the property's clause
        res['precondition_unmet'] = 1
        probes['mpc_not_representable'] = 1
        return
    rows, maps, modes = rebuild.remap(ss0, rows, rng, modes={'ACTopology': plan['bus_idx']})
    if plan.get('order') == 'shuffle':
        buses = [r_ for r_ in rows if r_[0] == 'Bus']
        rest = [r_ for r_ in rows if r_[0] != 'Bus']
        rng.shuffle(rest)
        rows = buses + rest
    for op in plan['ops']:
        if op[0] == 'off':
            cand = [d for m, d in rows if m == op[1]]
            if cand:
                cand[int(op[2] * len(cand)) % len(cand)]['u'] = 0
                probes['mpc_offline_' + op[1]] = 1
        elif op[0] == 'dup':
            cand = [d for m, d in rows if m == op[1]]
            if cand:
                src = cand[int(op[2] * len(cand)) % len(cand)]
                d2 = dict(src)
                d2['idx'] = 'dup_%s_%d' % (op[1], len(rows))
                d2['name'] = d2['idx']
                for k in ('p0', 'q0', 'g', 'b'):
                    if k in d2:
                        d2[k] = float(d2[k]) * op[3]
                rows.append((op[1], d2))
                probes['mpc_two_on_one_bus'] = 1
    ss = rebuild.build(rows)
    if not ss.setup():
        raise core.HarnessError('setup failed for the static part of %s' % plan['case'])
    for op in plan['ops']:
        if op[0] == 'alter':
            mname, pn = op[1].split('.')
            mdl = getattr(ss, mname)
            if mdl.n:
                i = int(op[2] * mdl.n) % mdl.n
                mdl.alter(pn, mdl.idx.v[i], float(getattr(mdl, pn).vin[i]) * op[3])
                probes['mpc_altered'] = 1
    with np.errstate(all='ignore'):
        ok0 = ss.PFlow.run()
    if not ok0:
        res['precondition_unmet'] = 1
        return
    if ss.PQ.n:
        # the format holds no per-load voltage range: a load that left its own range (or the default range of the re-import,
        # 0.8 .. 1.2) is converted to an impedance on one side only -- a limit of the format, not of the export
        vb = np.array(ss.Bus.v.v)[ss.Bus.idx2uid(ss.PQ.bus.v)]
        on = np.array(ss.PQ.u.v) > 0
        inside = (vb >= np.maximum(np.array(ss.PQ.vmin.v), 0.8)) & (vb <= np.minimum(np.array(ss.PQ.vmax.v), 1.2))
        if np.any(on & ~inside):
            res['precondition_unmet'] = 1
            probes['mpc_load_outside_voltage_range'] = 1
            return
    try:
        mpc = system2mpc(ss)
        s2 = andes.System(default_config=True, no_output=True, autogen_stale=False)
        mpc2system(mpc, s2)
        if not s2.setup():
            raise RuntimeError('setup() of the re-imported system failed')
    except Exception as e:
        v.append(V('mpc_roundtrip', 'MATPOWER export / re-import of the static network of %s (bus indices %s) raised %s: %s' %
                   (plan['case'], plan['bus_idx'], type(e).__name__, str(e)[:160]), what='raises', bus_idx=plan['bus_idx']))
        return
    probes['mpc_roundtrip'] = 1
    if s2.Bus.n != ss.Bus.n or s2.Line.n != ss.Line.n or (s2.PV.n + s2.Slack.n) != (ss.PV.n + ss.Slack.n):
        v.append(V('mpc_roundtrip', 'device counts differ after re-import: buses %d/%d, lines %d/%d, generators %d/%d' %
                   (ss.Bus.n, s2.Bus.n, ss.Line.n, s2.Line.n, ss.PV.n + ss.Slack.n, s2.PV.n + s2.Slack.n), what='count'))
        return
    with np.errstate(all='ignore'):
        ok1 = s2.PFlow.run()
    if not ok1:
        v.append(V('mpc_roundtrip', 'power flow of the re-imported MATPOWER export does not converge (original does)', what='pf_flag'))
        return
    probes['mpc_pf_compared'] = 1
    dv = float(np.max(np.abs(np.array(ss.Bus.v.v) - np.array(s2.Bus.v.v))))
    da = float(np.max(np.abs(np.array(ss.Bus.a.v) - np.array(s2.Bus.a.v))))
    if not (dv <= 1e-8 and da <= 1e-8):
        k = int(np.argmax(np.abs(np.array(ss.Bus.v.v) - np.array(s2.Bus.v.v))))
        load0 = float(np.sum(np.array(ss.PQ.u.v) * np.array(ss.PQ.p0.v))) if ss.PQ.n else 0.0
        load1 = float(np.sum(np.array(s2.PQ.u.v) * np.array(s2.PQ.p0.v))) if s2.PQ.n else 0.0
        v.append(V('mpc_roundtrip', 'power flow of the re-imported MATPOWER export differs: |dv| %.3g (bus position %d), |da| %.3g; '
                   'total load in service %.6g -> %.6g; ops %s' % (dv, k, da, load0, load1, plan['ops']), what='pf'))


def execute(plan):
    if plan.get('stub'):
        plan = elaborate(plan)
    import andes
    res = {'plan': plan, 'violations': []}
    v = res['violations']
    probes = {}
    if plan.get('kind') == 'mpc':
        run_mpc(plan, res, v, probes)
        res['probes'] = probes
        res['faults'] = {}
        res['nontrivial'] = bool(probes.get('mpc_roundtrip'))
        res['steps'] = 1
        dg = core.Digest()
        dg.add(res['sig'], sorted(core.vclass(x) for x in v), sorted(probes.items()))
        res['digest'] = dg.hex()
        return res
    d = scratch_dir('c13-')
    if plan.get('kind') == 'rewrite':
        try:
            return run_rewrite(plan, res, v, probes, d)
        finally:
            import shutil
            shutil.rmtree(d, ignore_errors=True)
    try:
        ss0 = build_system(plan['case'])
        ref = data_of(ss0)
        cons = constraints_of(ss0)
        if plan.get('pre_ops'):
            apply_pre_ops(ss0, ref, plan['pre_ops'], probes)
        cur = ss0
        handle = None
        datas = []
        for k, fmt in enumerate(plan['hops']):
            last = (k == len(plan['hops']) - 1)
            via = plan['via'] if fmt == 'json' else 'file'
            if cur.TimeSeries.n:
                via = 'file'        # relative data-file paths need a case directory; a stream has none
            handle = export(cur, fmt, via, d, k)
            if last and plan.get('fault'):
                break
            try:
                cur = reload(handle, fmt)
            except Exception as e:
                v.append(V('roundtrip', '[hop %d %s] reloading an intact export raised %s: %s' % (k, fmt, type(e).__name__, str(e)[:120]),
                           what='reload_raises', fmt=fmt))
                cur = None
                break
            if cur is None:
                v.append(V('roundtrip', '[hop %d %s] reloading an intact export returned None' % (k, fmt), what='reload_none', fmt=fmt))
                break
            probes['roundtrip_' + fmt] = probes.get('roundtrip_' + fmt, 0) + 1
            dd = data_of(cur)
            datas.append(dd)
            if not compare_data(ref, dd, 'hop %d %s' % (k, fmt), v, probes, cons):
                break
        if len(datas) >= 2:
            probes['chain'] = 1
        fault = plan.get('fault')
        if fault and not v and handle is not None:
            _faulted(plan, handle, plan['hops'][-1], ref, d, v, probes)
        elif cur is not None and not v and cur is not ss0:
            # same power flow and same dynamic initialisation
            ok0 = ss0.PFlow.run()
            ok1 = cur.PFlow.run()
            if ok0 != ok1:
                v.append(V('roundtrip', 'power flow converges for %s only' % ('the original' if ok0 else 'the reload'), what='pf_flag'))
            elif ok0:
                probes['pf_compared'] = 1
                if ss0.PFlow.y_sol.shape != cur.PFlow.y_sol.shape or float(np.max(np.abs(ss0.PFlow.y_sol - cur.PFlow.y_sol))) > 1e-12:
                    dd = float(np.max(np.abs(ss0.PFlow.y_sol - cur.PFlow.y_sol))) if ss0.PFlow.y_sol.shape == cur.PFlow.y_sol.shape else float('inf')
                    v.append(V('roundtrip', 'power-flow solution of the reloaded export differs by %.3g' % dd, what='pf'))
                elif ss0.dae.n or any(m.n and m.flags.tds for m in ss0.models.values()):
                    for s_ in (ss0, cur):
                        s_.TDS.config.no_tqdm = 1
                        with np.errstate(all='ignore'):
                            s_.TDS.init()
                    probes['init_compared'] = 1
                    if ss0.TDS.test_ok != cur.TDS.test_ok:
                        v.append(V('roundtrip', 'dynamic initialisation: original test_ok %r, reload %r' % (ss0.TDS.test_ok, cur.TDS.test_ok),
                                   what='init_flag'))
                    else:
                        fa = np.concatenate([ss0.dae.f, ss0.dae.g])
                        fb = np.concatenate([cur.dae.f, cur.dae.g])
                        if fa.shape != fb.shape or float(np.nanmax(np.abs(fa - fb))) > 1e-10:
                            v.append(V('roundtrip', 'initialisation residuals of the reloaded export differ from the original', what='init'))
        res['probes'] = probes
        res['faults'] = {}
        if fault:
            res['faults'][fault['kind']] = 1
        res['sig'] = json.dumps([plan['case'], plan['hops'], plan['via'], (fault or {}).get('kind')])
        res['nontrivial'] = bool(probes.get('params_compared') or fault)
        res['steps'] = len(plan['hops'])
        dg = core.Digest()
        dg.add(res['sig'], sorted(core.vclass(x) for x in v), sorted(probes.items()))
        res['digest'] = dg.hex()
    finally:
        import shutil
        shutil.rmtree(d, ignore_errors=True)
    return res


def _faulted(plan, handle, fmt, ref, d, v, probes):
    import andes
    fault = plan['fault']
    kind, val = handle
    if kind == 'stream':
        blob = val.encode()
    else:
        with open(val, 'rb') as f:
            blob = f.read()
    if fault['kind'] == 'truncate':
        cut = max(1, min(len(blob) - 1, int(len(blob) * fault['frac'])))
        bad = blob[:cut]
        probes['truncated'] = 1
    elif fault['kind'] == 'lost':
        bad = b''
        probes['lost_write'] = 1
    else:
        pos = int(len(blob) * fault['frac']) % len(blob)
        bad = bytearray(blob)
        bad[pos] ^= (1 << fault['bit'])
        bad = bytes(bad)
        probes['bit_flip'] = 1
    path = os.path.join(d, 'faulted.' + fmt)
    with open(path, 'wb') as f:
        f.write(bad)
    try:
        with np.errstate(all='ignore'):
            ss = andes.load(path, no_output=True, default_config=True, autogen_stale=False)
    except Exception:
        ss = None
        probes['load_failed_loudly'] = probes.get('load_failed_loudly', 0) + 1
    if ss is None:
        probes['load_failed_loudly'] = max(probes.get('load_failed_loudly', 0), 1)
        # the command line must agree: non-zero exit (an exception ends the CLI with status 1)
        try:
            code = andes.run(path, cli=True, no_output=True, default_config=True, verbose=50, autogen_stale=False)
            if code == 0:
                v.append(V('faulted_load', 'andes.load of a %s %s export fails but andes.run(cli=True) returns 0' % (fault['kind'], fmt),
                           what='cli_zero', fmt=fmt, fault=fault['kind']))
        except Exception:
            pass
        return
    dd = data_of(ss)
    tmpv = []
    if not compare_data(ref, dd, 'faulted', tmpv, {}):
        v.append(V('faulted_load', 'a %s %s export (%d of %d bytes) loads without complaint into a different system: %s' %
                   (fault['kind'], fmt, len(bad), len(blob), tmpv[0]['detail'][:160]), what='silently_different', fmt=fmt,
                   fault=fault['kind']))


def simplify(plan):
    if len(plan.get('hops', [])) > 1:
        q = json.loads(json.dumps(plan))
        q['hops'] = q['hops'][-1:]
        yield q
    if plan.get('via') == 'stream':
        q = json.loads(json.dumps(plan))
        q['via'] = 'file'
        yield q
