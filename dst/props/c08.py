"""
C08 -- eigenvalue analysis reports the true small-signal modes (history clause).

Engine: lifecycle-sim.  Claimed: whatever history brought the System to its present data and state, EIG reports what a
freshly built System with that data and state reports.  A seeded history runs on a stock case:
  eig / alter(time constant, damping) / sweep(time constant | damping values) / flat TDS segment then eig /
  snapshot save+load then eig / reset + power flow + eig / eig twice
and every eigenvalue result is compared, as a multiset, with a *fresh twin* loaded from the same file, given the same
input data through the documented route (alter before the power flow) and analysed once.  On every call the free
output invariants are monitored: positive + zero + negative counts partition the eigenvalues, participation factors are
non-negative with unit column sums (5-decimal rounding), EIG.As equals the dense T^-1 (fx - fy gy^-1 gx) recomputed by
numpy from freshly updated Jacobians and a mass matrix rebuilt from the t_const parameters, and the reported spectrum
equals the finite generalised eigenvalues of the pencil ([fx fy; gx gy], diag(T, 0)) from scipy.linalg.eig.
"""

import io
import json

import numpy as np

from dst import core, gen
from dst.core import stream
from dst.props.c16 import spectrum_distance
from dst.seams import independent_tf
from dst.tdssim import V
from dst.world import build_system, catalogue

PROP = 'C08'
LEVEL = 'exploration'
COUNTS = {'quick': 200, 'thorough': 5000}
BUDGET = {'quick': 110, 'thorough': 1500}
TIMEOUT = 240
SHRINK_LISTS = [['ops']]
EXPECTED_PROBES = ['sweep_two_devices', 'zero_tc', 'unzero_tc', 'sweep_to_zero', 'twin_compared', 'sweep_rounds', 'alter_tconst', 'after_tds', 'after_snapshot', 'after_reset', 'dense_As_checked',
                   'pencil_checked', 'zero_time_constants', 'invariants_checked']
RULE = ('plan = (stock dynamic case, seeded op history over {eig, alter, sweep, flat tds, snapshot, reset}); non-trivial = at least one '
        'eigenvalue result after a history step was compared with the fresh twin; distinct = (case, op sequence, parameter kinds)')
ASSUMPTIONS = [
    'only parameters that do not move the equilibrium are altered / swept (time constants of differential equations, damping D), so the '
    'twin initialised with the new value stands at the same operating point',
    'eigenvalue sets are compared as multisets with relative tolerance 2e-4 (greedy nearest matching); the twin stands at the same point up to its initialisation residual',
    'cases with zero time constants form a separate class; their finite-pencil comparison uses |mu| < 1e6 as "finite"',
]


# the twin linearises after its own initialisation step: operating points agree to the initialisation residual (<= 1e-4), so do spectra
TWIN_TOL = 2e-4


def cases():
    out = []
    for c in catalogue()['cases']:
        if c.get('error') or not c.get('pf') or not c.get('test_ok') or not c.get('n'):
            continue
        if c['case'] in gen.BIG:
            continue
        out.append(c)
    return out


def plans(seed, tier, count):
    out = []
    for i, c in enumerate(cases()):
        out.append({'property': PROP, 'seed': core.H('fix08', i), 'case': c['case'], 'ops': [{'op': 'eig'}]})
    for j, c in enumerate(['kundur/kundur_full.xlsx', 'ieee14/ieee14_esst3a.xlsx', 'kundur/kundur_exst1.xlsx']):
        out.append({'property': PROP, 'seed': core.H('fix08z', j), 'case': c,
                    'ops': [{'op': 'eig'}, {'op': 'zero_tc', 'pick': 0.1 + 0.3 * j, 'factors': [1.0]}, {'op': 'eig'},
                            {'op': 'unzero_tc', 'pick': 0.4, 'factors': [1.0]}, {'op': 'eig'},
                            {'op': 'sweep0', 'pick': 0.2, 'factors': [2.0, 1.0, 0.0]}]})
    for j, c in enumerate(['kundur/kundur_full.xlsx', 'ieee14/ieee14_fault.xlsx']):
        out.append({'property': PROP, 'seed': core.H('fix08two', j), 'case': c,
                    'ops': [{'op': 'sweep', 'pick': 0.05 + 0.5 * j, 'factors': [0.5, 1.5, 2.0], 'two_devices': True}, {'op': 'eig'}]})
    i = 0
    while len(out) < count:
        out.append({'stub': True, 'seed': core.H(seed, PROP, i), 'tier': tier})
        i += 1
    return out[:max(count, 1)]


def elaborate(stub):
    seed = stub['seed']
    r = stream(seed, 'case')
    c = r.choice(cases())
    o = stream(seed, 'ops')
    ops = []
    for _ in range(o.randint(1, 4)):
        k = o.choice(['alter', 'alter', 'sweep', 'sweep', 'tds', 'eig', 'snapshot' if o.random() < 0.3 else 'eig', 'reset'])
        ops.append({'op': k, 'pick': o.random(), 'factors': [o.choice([0.5, 0.8, 1.5, 2.0]) for _ in range(o.choice([1, 2, 3]))]})
        if k == 'sweep':
            # the documented multi-device form: the same parameter of two devices swept together, each with its own values
            ops[-1]['two_devices'] = stream(seed, 'two%d' % len(ops)).random() < 0.5
        if k in ('alter', 'tds', 'snapshot', 'reset'):
            ops.append({'op': 'eig'})
        # a time constant moved to or from zero between two analyses (the state changes class: differential <-> algebraic)
        z = stream(seed, 'zero%d' % len(ops))
        if z.random() < 0.3:
            kz = z.choice(['zero_tc', 'zero_tc', 'unzero_tc', 'sweep0'])
            ops.append({'op': kz, 'pick': z.random(), 'factors': [z.choice([2.0, 1.0, 0.5]), 0.0] if kz == 'sweep0' else [1.0]})
            if kz != 'sweep0':
                ops.append({'op': 'eig'})
    if ops[-1]['op'] not in ('eig', 'sweep'):
        ops.append({'op': 'eig'})
    return {'property': PROP, 'seed': seed, 'case': c['case'], 'ops': ops}


# --------------------------------------------------------------------------------------------

def tconst_targets(ss):
    """(model, param) that are time constants of differential equations or damping: do not move the equilibrium."""
    import re
    out = []
    for name, mdl in ss.exist.tds.items():
        # ANDES documents that altering a parameter does not update constants computed from it at initialisation: a parameter that
        # feeds a service or an initial-value expression is therefore not a fair target for the fresh-twin comparison
        init_text = ' '.join([str(sv.v_str) for sv in mdl.services.values() if getattr(sv, 'v_str', None)] +
                             [str(vr.v_str) for vr in mdl.cache.all_vars.values() if getattr(vr, 'v_str', None)] +
                             [str(vr.v_iter) for vr in mdl.cache.all_vars.values() if getattr(vr, 'v_iter', None)])
        for sn, st in mdl.states.items():
            tc = st.t_const
            if tc is not None and getattr(tc, 'vin', None) is not None and tc.name in mdl.num_params and np.all(np.asarray(tc.v) != 0):
                if re.search(r'\b%s\b' % re.escape(tc.name), init_text):
                    continue
                out.append((name, tc.name))
        if name in ('GENROU', 'GENCLS') and 'D' in mdl.num_params:
            out.append((name, 'D'))
    return sorted(set(out))


def zero_targets(ss):
    """(model, 'TR'): voltage-transducer lags of exciters, which the model documentation allows to be zero."""
    out = []
    for name, mdl in ss.Exciter.models.items():
        if mdl.n and 'TR' in mdl.num_params and any(st.t_const is mdl.TR for st in mdl.states.values()):
            out.append((name, 'TR'))
    return sorted(out)


def dense(sp):
    from kvxopt import matrix
    return np.array(matrix(sp))


def invariants(ss, where, v, probes):
    eig = ss.EIG
    mu = np.asarray(eig.mu)
    probes['invariants_checked'] = probes.get('invariants_checked', 0) + 1
    nz = int(np.sum(ss.dae.Tf == 0))
    if nz:
        probes['zero_time_constants'] = 1
    if eig.n_positive + eig.n_zeros + eig.n_negative != len(mu):
        v.append(V('counts', '[%s] positive %d + zero %d + negative %d != %d eigenvalues' %
                   (where, eig.n_positive, eig.n_zeros, eig.n_negative, len(mu)), what='partition', has_zero_modes=bool(eig.n_zeros)))
    pf = np.asarray(eig.pfactors)
    if pf.size:
        if np.any(pf < 0):
            v.append(V('participation', '[%s] negative participation factor' % where, what='negative'))
        # pfactors[mode, state]: the factors of one mode are a row
        cs = pf.sum(axis=1)
        if np.any(np.abs(cs - 1) > 1e-4 * max(1, pf.shape[0])) and np.all(np.isfinite(pf)):
            v.append(V('participation', '[%s] participation factors of a mode sum to %.6f' % (where, float(cs[np.argmax(np.abs(cs - 1))])),
                       what='sum'))
    # dense recomputation of the state matrix at the current operating point
    ss.j_update(ss.exist.pflow_tds)
    fx, fy, gx, gy = dense(ss.dae.fx), dense(ss.dae.fy), dense(ss.dae.gx), dense(ss.dae.gy)
    T = independent_tf(ss)
    n = ss.dae.n
    if nz == 0:
        A = (fx - fy @ np.linalg.solve(gy, gx)) / T[:, None]
        As = np.array(eig.As) if not hasattr(eig.As, 'size') or isinstance(eig.As, np.ndarray) else dense(eig.As)
        probes['dense_As_checked'] = probes.get('dense_As_checked', 0) + 1
        if As.shape != A.shape or float(np.max(np.abs(As - A))) > 1e-7 * max(1.0, float(np.max(np.abs(A)))):
            d = float(np.max(np.abs(As - A))) if As.shape == A.shape else float('inf')
            v.append(V('state_matrix', '[%s] EIG.As differs from T^-1(fx - fy gy^-1 gx) of the current point by %.3g' % (where, d),
                       what='As'))
    # finite generalised eigenvalues of the pencil
    from scipy.linalg import eig as geig
    Jfull = np.block([[fx, fy], [gx, gy]])
    E = np.zeros_like(Jfull)
    E[:n, :n] = np.diag(T)
    with np.errstate(all='ignore'):
        w = geig(Jfull, E, right=False)
    fin = w[np.isfinite(w) & (np.abs(w) < 1e6)]
    rep = mu[np.isfinite(mu) & (np.abs(mu) < 1e6)]
    probes['pencil_checked'] = probes.get('pencil_checked', 0) + 1
    if len(fin) != len(rep) or spectrum_distance(fin, rep) > 1e-4:
        v.append(V('pencil', '[%s] reported spectrum (%d finite values) differs from the finite generalised eigenvalues of the pencil (%d); '
                   'distance %.3g; %d zero time constants' % (where, len(rep), len(fin),
                                                              spectrum_distance(fin, rep) if len(fin) == len(rep) else float('inf'), nz),
                   what='spectrum', zero_tf=nz > 0))


def singular_algebraic_block(ss):
    """True if [[f_zz f_zy],[g_yz g_yy]] (zero-time-constant states joined to the algebraic variables) is numerically singular."""
    ss.j_update(ss.exist.pflow_tds)
    fx, fy, gx, gy = dense(ss.dae.fx), dense(ss.dae.fy), dense(ss.dae.gx), dense(ss.dae.gy)
    z = np.where(independent_tf(ss) == 0)[0]
    G = np.block([[fx[np.ix_(z, z)], fy[z, :]], [gx[:, z], gy]])
    sv = np.linalg.svd(G, compute_uv=False)
    return bool(sv[-1] < 1e-10 * max(1.0, sv[0]))


def twin_mu(plan, altered):
    """Fresh System from the same file with the altered input data given before the power flow."""
    tw = build_system(plan['case'], knobs={'TDS.no_tqdm': 1})
    for (name, pn, idx), vin in altered.items():
        tw.models[name].alter(pn, idx, vin)
    if not tw.PFlow.run():
        return None
    if not tw.EIG.run():
        return None
    return np.array(tw.EIG.mu).copy()


def execute(plan):
    if plan.get('stub'):
        plan = elaborate(plan)
    res = {'plan': plan, 'violations': []}
    v = res['violations']
    probes = {}
    ss = build_system(plan['case'], knobs={'TDS.no_tqdm': 1}, extra={'flat': True})     # no event schedule: TDS segments stay at the point
    kinds = []
    if not ss.PFlow.run():
        res.update(precondition_unmet=1, nontrivial=False, sig='pf-failed', digest='pf-failed')
        return res
    altered = {}     # (model, param, idx) -> input-base value
    moved = False
    try:
        for oi, op in enumerate(plan['ops']):
            if v:
                break
            k = op['op']
            kinds.append(k)
            where = 'op %d %s' % (oi, k)
            if k == 'eig':
                ok = ss.EIG.run()
                if not ok:
                    if singular_algebraic_block(ss):
                        # the property quantifies over systems with a non-singular algebraic block: failure is the right answer
                        probes['singular_block_refused'] = probes.get('singular_block_refused', 0) + 1
                        res['precondition_unmet'] = 1
                        break
                    v.append(V('eig_fails', '[%s] EIG.run() returned False on a case that initialises' % where, what='false'))
                    break
                invariants(ss, where, v, probes)
                ref = twin_mu(plan, altered) if not moved else None
                if ref is None:
                    continue
                probes['twin_compared'] = probes.get('twin_compared', 0) + 1
                d = spectrum_distance(ss.EIG.mu, ref)
                if d > TWIN_TOL:
                    v.append(V('twin', '[%s] eigenvalues after the history %s differ from a freshly built twin with the same data by %.3g' %
                               (where, kinds, d), what='history', last=next((x for x in reversed(kinds[:-1]) if x != 'eig'), 'none')))
            elif k == 'alter':
                if not ss.TDS.initialized:
                    ss.TDS.init()
                tg = tconst_targets(ss)
                if not tg:
                    continue
                name, pn = tg[int(op['pick'] * len(tg)) % len(tg)]
                mdl = ss.models[name]
                idx = mdl.idx.v[0]
                new = float(mdl.__dict__[pn].vin[0]) * op['factors'][0]
                if new == 0:
                    continue
                mdl.alter(pn, idx, new)
                altered[(name, pn, idx)] = new
                probes['alter_tconst'] = probes.get('alter_tconst', 0) + 1
            elif k in ('zero_tc', 'unzero_tc'):
                if not ss.TDS.initialized:
                    ss.TDS.init()
                tg = zero_targets(ss)
                if not tg:
                    continue
                name, pn = tg[int(op['pick'] * len(tg)) % len(tg)]
                mdl = ss.models[name]
                uid = int(op['pick'] * 997) % mdl.n
                idx = mdl.idx.v[uid]
                cur = float(np.asarray(mdl.__dict__[pn].v)[uid])
                if k == 'zero_tc':
                    if cur == 0:
                        continue
                    new = 0.0
                else:
                    zeros = [u for u in range(mdl.n) if float(np.asarray(mdl.__dict__[pn].v)[u]) == 0]
                    if not zeros:
                        continue
                    uid = zeros[int(op['pick'] * 991) % len(zeros)]
                    idx = mdl.idx.v[uid]
                    new = 0.02
                mdl.alter(pn, idx, new)
                altered[(name, pn, idx)] = new
                probes[k] = probes.get(k, 0) + 1
            elif k in ('sweep', 'sweep0'):
                if not ss.TDS.initialized:
                    ss.TDS.init()
                if np.any(ss.dae.Tf == 0) and singular_algebraic_block(ss):
                    res['precondition_unmet'] = 1
                    continue
                tg = tconst_targets(ss) if k == 'sweep' else [t for t in zero_targets(ss) if float(np.asarray(ss.models[t[0]].TR.v)[0]) != 0]
                if not tg:
                    continue
                if k == 'sweep0':
                    probes['sweep_to_zero'] = probes.get('sweep_to_zero', 0) + 1
                name, pn = tg[int(op['pick'] * len(tg)) % len(tg)]
                mdl = ss.models[name]
                idx = mdl.idx.v[0]
                p = mdl.__dict__[pn]
                base_v = float(np.asarray(p.v)[0])
                base_vin = float(np.asarray(p.vin)[0])
                if base_v == 0:
                    continue
                vals = [base_v * f for f in op['factors']]
                coeff = float(np.asarray(p.pu_coeff)[0]) if np.ndim(p.pu_coeff) else 1.0     # sweep writes system-base values
                second = None
                if op.get('two_devices') and mdl.n >= 2 and k == 'sweep' and float(np.asarray(p.v)[1]) != 0:
                    idx2 = mdl.idx.v[1]
                    vals2 = [float(np.asarray(p.v)[1]) * f for f in reversed(op['factors'])]
                    coeff2 = float(np.asarray(p.pu_coeff)[1]) if np.ndim(p.pu_coeff) else 1.0
                    second = (idx2, vals2, coeff2)
                    probes['sweep_two_devices'] = probes.get('sweep_two_devices', 0) + 1
                    out = ss.EIG.sweep([p, p], [idx, idx2], [vals, vals2])
                else:
                    out = ss.EIG.sweep(p, idx, vals)
                if not out:
                    v.append(V('sweep', '[%s] EIG.sweep returned %r' % (where, out), what='empty'))
                    break
                for cnt, f in enumerate(op['factors']):
                    if moved:
                        break
                    probes['sweep_rounds'] = probes.get('sweep_rounds', 0) + 1
                    al = dict(altered)
                    al[(name, pn, idx)] = vals[cnt] / coeff
                    if second is not None:
                        al[(name, pn, second[0])] = second[1][cnt] / second[2]
                    ref = twin_mu(plan, al)
                    if ref is None:
                        continue
                    probes['twin_compared'] = probes.get('twin_compared', 0) + 1
                    d = spectrum_distance(out[cnt]['mu'], ref)
                    if d > TWIN_TOL:
                        v.append(V('twin', '[%s] sweep round %d (%s.%s x %.2f): eigenvalues differ from a fresh twin with that value by %.3g' %
                                   (where, cnt, name, pn, f, d), what='sweep', param_kind='time_constant' if pn != 'D' else 'damping'))
                        break
                # the sweep leaves its last value in the system
                altered[(name, pn, idx)] = vals[-1] / coeff
                if second is not None:
                    altered[(name, pn, second[0])] = second[1][-1] / second[2]
            elif k == 'tds':
                ss.TDS.config.tf = (float(ss.dae.t) if ss.TDS.initialized and float(ss.dae.t) > 0 else 0.0) + 0.2
                if not ss.TDS.initialized:
                    ss.TDS.init()
                x_b, y_b = ss.dae.x.copy(), ss.dae.y.copy()
                ok = ss.TDS.run()
                probes['after_tds'] = probes.get('after_tds', 0) + 1
                mask = ss.dae.Tf != 0
                mv = max(float(np.max(np.abs(ss.dae.x - x_b)[mask] / (1 + np.abs(x_b[mask])))) if mask.any() else 0.0,
                         float(np.max(np.abs(ss.dae.y - y_b) / (1 + np.abs(y_b)))))
                if mv > 1e-6:
                    # the stock start is not an equilibrium (a limiter sits at its bound): the twin at the initial point is no reference
                    moved = True
                    res['precondition_unmet'] = 1
            elif k == 'snapshot':
                from andes.utils.snapshot import load_ss, save_ss
                buf = io.BytesIO()
                save_ss(buf, ss)
                ss = load_ss(io.BytesIO(buf.getvalue()))
                probes['after_snapshot'] = probes.get('after_snapshot', 0) + 1
            elif k == 'reset':
                if ss.TDS.initialized:
                    continue
                ss.reset()
                if not ss.PFlow.run():
                    break
                probes['after_reset'] = probes.get('after_reset', 0) + 1
    except Exception as e:
        import traceback
        tb = traceback.extract_tb(e.__traceback__)
        where2 = next(('%s:%s' % (fr.filename.split('/')[-1], fr.name) for fr in reversed(tb) if '/andes/' in fr.filename), None)
        if where2 is None:
            raise
        v.append(V('lifecycle', 'operation %r raised %s in %s: %s (%d zero time constants)' %
                   (kinds[-1] if kinds else None, type(e).__name__, where2, str(e)[:120], int(np.sum(ss.dae.Tf == 0))),
                   what='raised', where=where2, zero_tf=bool(np.any(ss.dae.Tf == 0))))
    res['probes'] = probes
    res['faults'] = {}
    res['sig'] = json.dumps([plan['case'], kinds])
    res['nontrivial'] = bool(probes.get('twin_compared'))
    res['steps'] = len(kinds)
    d = core.Digest()
    d.add(res['sig'], sorted(core.vclass(x) for x in v), sorted(probes.items()))
    res['digest'] = d.hex()
    return res
