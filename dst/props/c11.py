"""
C11 -- per-unit conversion and parameter alteration keep both value bases consistent.

Engine: lifecycle-sim.  A stock case is rebuilt with seeded device bases different from the system base (Sn, Vn of
generators, loads, lines scaled while the physical values are kept), then a seeded history of operations runs across
the three lifecycle phases (after set-up, after power flow, after dynamic initialisation):
  alter / Group.alter / alter(attr='vin') / set / reset / PFlow.run / TDS.init / run a short segment /
  export json + xlsx / reload the export in a fresh System / a timed Alter device firing inside the run.
A reference parameter model keeps (vin, k, v) per flagged parameter with k recomputed from textbook ratios of
(Sn, Vn, bus Vn, system MVA) by quantity kind.  After each operation: v == vin*k for every flagged parameter not
touched by `set`; an altered PQ load is what the next residual evaluation injects; an altered time constant is what
dae.Tf / TDS.Teye hold and what the next steps integrate with (rule mirror with the independently rebuilt mass matrix);
every export written after an alteration contains the altered input-base value whatever was exported before; the
reloaded export carries the same input values; reset() restores v = vin*k.
"""

import io
import json
import os

import numpy as np

from dst import addrcheck, core, gen, rebuild, tdssim
from dst.core import stream
from dst.tdssim import V
from dst.world import build_system, scratch_dir

PROP = 'C11'
LEVEL = 'exploration'
COUNTS = {'quick': 220, 'thorough': 6000}
BUDGET = {'quick': 110, 'thorough': 1500}
TIMEOUT = 240
SHRINK_LISTS = [['ops']]
EXPECTED_PROBES = ['alter_base_reset', 'set_alter_same', 'coeff_checked', 'alter', 'group_alter', 'alter_vin', 'set', 'reset', 'export_json', 'export_xlsx', 'reload',
                   'time_const_altered', 'shared_time_const_altered', 'residual_effect_checked', 'non_unit_bases', 'export_after_earlier_export']
RULE = ('plan = (case, seeded base scaling, seeded op history over three lifecycle phases); non-trivial = at least one alteration '
        'followed by an observation (coefficient check, export, residual, time constant); distinct = (case, op-kind sequence, base scaling)')
ASSUMPTIONS = [
    'which parameter is a power / voltage / current / impedance / admittance quantity is read from the model declaration (property flags)',
    'k is recomputed from Sn, Vn (Vn1 for series devices), the bus nominal voltage found by scanning the Bus idx list, and System.config.mva',
    'parameters touched by Model.set are excluded from v == vin*k until reset (set is documented to change the system-base value only)',
]
CASES = ['5bus/pjm5bus.json', 'kundur/kundur_full.xlsx', 'ieee14/ieee14_linetrip.xlsx', 'ieee14/ieee14_esst3a.xlsx', 'smib/SMIB.xlsx',
         'kundur/kundur_sexs.xlsx', 'wscc9/wscc9.xlsx', 'ieee14/ieee14_gentrip.xlsx', 'kundur/kundur_ieeeg1.xlsx', 'ieee14/ieee14_hygov.xlsx',
         'ieee14/ieee14_wt3.xlsx', 'kundur/kundur_reg.xlsx', 'ieee14/ieee14_solar.xlsx']
KINDS = ('power', 'ipower', 'voltage', 'current', 'z', 'y')


def plans(seed, tier, count):
    out = [json.loads(json.dumps(p)) for p in REGRESSION]
    i = 0
    while len(out) < count:
        out.append({'stub': True, 'seed': core.H(seed, PROP, i), 'tier': tier})
        i += 1
    return out


def elaborate(stub):
    seed = stub['seed']
    r = stream(seed, 'case')
    case = r.choice(CASES)
    o = stream(seed, 'ops')
    ops = []
    phase_ops = ['alter', 'alter', 'alter', 'group_alter', 'alter_vin', 'set', 'set_alter_same', 'alter_base_reset', 'export_json', 'export_xlsx', 'reload', 'check']
    for phase in ('setup', 'pflow', 'tds'):
        if phase == 'pflow':
            ops.append({'op': 'pflow'})
        if phase == 'tds':
            if o.random() < 0.25:
                ops.append({'op': 'reset'})
                ops.append({'op': 'pflow'})
            ops.append({'op': 'tds_init'})
        for _ in range(o.randint(0, 4)):
            k = o.choice(phase_ops)
            ops.append({'op': k, 'pick': o.random(), 'pick2': o.random(), 'factor': o.choice([0.5, 0.9, 1.1, 1.25, 2.0])})
        if phase == 'tds' and o.random() < 0.6:
            ops.append({'op': 'alter_tconst', 'pick': o.random(), 'factor': o.choice([0.5, 1.5, 2.0])})
            ops.append({'op': 'segment', 'tf': 0.2})
    ops.append({'op': 'export_json'})
    ops.append({'op': 'reload'})
    return {'property': PROP, 'seed': seed, 'case': case, 'scale_bases': r.random() < 0.7, 'ops': ops}


# --------------------------------------------------------------------------------------------
# reference model
# --------------------------------------------------------------------------------------------

def scale_bases(ss0, rows, rng):
    """Give devices bases different from the system / bus base while keeping the physics: returns new rows."""
    out = []
    for m, d in rows:
        d = dict(d)
        mdl = ss0.models[m]
        if 'Sn' in d and isinstance(d['Sn'], (int, float)) and m not in ('Bus',) and rng.random() < 0.6:
            f = rng.choice([0.5, 2.0, 3.0, 0.8])
            old = d['Sn']
            d['Sn'] = old * f
            for pn, p in mdl.num_params.items():
                if pn not in d or not isinstance(d[pn], (int, float)) or pn == 'Sn':
                    continue
                pr = p.property
                # keep the physical value: device-base pu scales inversely with the power base
                if pr.get('power'):
                    d[pn] = d[pn] / f
                elif pr.get('ipower'):
                    d[pn] = d[pn] * f
                elif pr.get('current'):
                    d[pn] = d[pn] / f
                elif pr.get('z'):
                    d[pn] = d[pn] * f
                elif pr.get('y'):
                    d[pn] = d[pn] / f
        out.append((m, d))
    return out


class RefParams:
    def __init__(self, ss):
        self.ss = ss
        self._limit_cache = {}
        self.set_marks = set()       # (model, param, uid) touched by set -> relation suspended
        self.altered = []
        self.vin = {}                # (model, param) -> np.array of input-base values (reference)
        for name, mdl in ss.models.items():
            if not mdl.n:
                continue
            for pn, p in mdl.num_params.items():
                if pn in mdl.params_ext or pn == 'u':      # connection status is switched by the routines by design
                    continue
                if p.vin is not None and getattr(p.vin, 'dtype', None) is not None and p.vin.dtype.kind in 'fiu':
                    self.vin[(name, pn)] = np.array(p.vin, dtype=float).copy()

    def coeff(self, mdl):
        """Textbook coefficients per device of one model, recomputed independently of ss.calc_pu_coeff."""
        ss = self.ss
        n = mdl.n
        Sb = float(ss.config.mva)
        Sn = np.asarray(mdl.Sn.v, float) if 'Sn' in mdl.__dict__ and len(np.atleast_1d(mdl.Sn.v)) == n else np.full(n, Sb)
        busp = 'bus' if 'bus' in mdl.__dict__ else ('bus1' if 'bus1' in mdl.__dict__ else None)
        if busp is not None:
            Vb = np.ones(n)
            for i, b in enumerate(mdl.__dict__[busp].v):
                fd = addrcheck.find_device(ss, 'Bus', b)
                if fd is not None:
                    Vb[i] = float(fd[0].Vn.v[fd[1]])
            vnp = 'Vn' if busp == 'bus' else 'Vn1'
            Vn = np.asarray(mdl.__dict__[vnp].v, float) if vnp in mdl.__dict__ and len(np.atleast_1d(mdl.__dict__[vnp].v)) == n else Vb
        else:
            Vb = np.ones(n)
            Vn = np.ones(n)
        Zn, Zb = Vn ** 2 / Sn, Vb ** 2 / Sb
        return {'power': Sn / Sb, 'ipower': Sb / Sn, 'voltage': Vn / Vb, 'current': (Sn / Vn) / (Sb / Vb), 'z': Zn / Zb, 'y': Zb / Zn}

    def limit_params(self, mdl):
        """Names of the parameters of this model that serve as lower/upper limit of one of its discrete components."""
        key = mdl.class_name
        if key not in self._limit_cache:
            names = set()
            for d in mdl.discrete.values():
                for attr in ('lower', 'upper'):
                    q = getattr(d, attr, None)
                    if q is not None and getattr(q, 'name', None) in mdl.num_params:
                        names.add(q.name)
            self._limit_cache[key] = names
        return self._limit_cache[key]

    def k_of(self, mdl, p, co):
        for kind in KINDS:
            if p.property.get(kind):
                return co[kind]
        return np.ones(mdl.n)

    def check(self, where, v, probes):
        ss = self.ss
        nu = False
        for name, mdl in ss.models.items():
            if not mdl.n:
                continue
            co = None
            for pn, p in mdl.num_params.items():
                if (name, pn) not in self.vin:
                    continue
                if not any(p.property.get(k) for k in KINDS):
                    # not a flagged quantity: only judged where the history altered it (limit parameters may be adjusted at
                    # initialisation by design)
                    if not any(a[0] == name and a[1] == pn for a in self.altered):
                        continue
                    k = np.ones(mdl.n)
                else:
                    if co is None:
                        co = self.coeff(mdl)
                    k = self.k_of(mdl, p, co)
                    if np.any(np.abs(k - 1) > 1e-9):
                        nu = True
                vin_ref = self.vin[(name, pn)]
                pv, pvin = np.asarray(p.v, float), np.asarray(p.vin, float)
                if pv.shape != vin_ref.shape:
                    continue
                mask = np.array([(name, pn, i) not in self.set_marks for i in range(mdl.n)])
                if not np.allclose(pvin[mask], vin_ref[mask], rtol=1e-12, atol=0, equal_nan=True):
                    i = int(np.where(mask & ~np.isclose(pvin, vin_ref, rtol=1e-12, atol=0, equal_nan=True))[0][0])
                    v.append(V('input_value', '[%s] %s.%s[%d]: input-base value %r, history says %r' % (where, name, pn, i, pvin[i], vin_ref[i]),
                               what='vin'))
                    return False
                exp = vin_ref * k
                ok = np.isclose(pv, exp, rtol=1e-10, atol=1e-14, equal_nan=True) | ~mask
                if not np.all(ok) and ss.TDS.initialized and getattr(mdl.config, 'allow_adjust', 0) and pn in self.limit_params(mdl):
                    # a limit that the (altered) data puts on the wrong side of the initial value is moved to that value at
                    # initialisation, with a warning: documented behaviour of allow_adjust, the input value stays
                    probes['adjusted_limit_seen'] = probes.get('adjusted_limit_seen', 0) + 1
                    continue
                if not np.all(ok):
                    i = int(np.where(~ok)[0][0])
                    kind = next((kk for kk in KINDS if p.property.get(kk)), 'none')
                    v.append(V('pu_coeff', '[%s] %s.%s[%d] (%s quantity): system value %r, input %r x textbook ratio %r = %r' %
                               (where, name, pn, i, kind, pv[i], vin_ref[i], k[i], exp[i]), kind=kind))
                    return False
        probes['coeff_checked'] = probes.get('coeff_checked', 0) + 1
        if nu:
            probes['non_unit_bases'] = 1
        return True


def numeric_targets(ss):
    """Candidate (model, param) pairs for alteration: flagged quantities + a few plain parameters, excluding structural ones."""
    out = []
    skip = ('u', 'Sn', 'Vn', 'Vn1', 'Vn2', 'fn', 'xcoord', 'ycoord', 'vmax', 'vmin', 'trans', 'tap', 'phi', 'owner', 'zone', 'area')
    for name, mdl in ss.models.items():
        if not mdl.n or mdl.group in rebuild.DROP_GROUPS or name in ('Bus', 'Area', 'Region'):
            continue
        for pn, p in mdl.num_params.items():
            if pn in mdl.params_ext or pn in skip or p.vin is None:
                continue
            if getattr(p.vin, 'dtype', None) is None or p.vin.dtype.kind not in 'fiu':
                continue
            if any(p.property.get(k) for k in KINDS) or pn in ('p0', 'q0', 'v0', 'M', 'D', 'b', 'g'):
                out.append((name, pn))
    return sorted(out)


def execute(plan):
    if plan.get('stub'):
        plan = elaborate(plan)
    res = {'plan': plan, 'violations': []}
    v = res['violations']
    probes = {}
    ss0 = build_system(plan['case'], setup=False)
    rows = rebuild.extract(ss0)
    rng = stream(plan['seed'], 'bases')
    if plan.get('scale_bases'):
        rows = scale_bases(ss0, rows, rng)
    ss = rebuild.build(rows)
    ss.setup()
    ss.TDS.config.no_tqdm = 1
    ref = RefParams(ss)
    ref.check('after setup', v, probes)
    targets = numeric_targets(ss)
    altered = ref.altered   # (model, param, uid) whose input value was changed by alter
    exported_before = False
    last_json = None
    sdir = None
    hist = None
    kinds = []
    try:
        for oi, op in enumerate(plan['ops']):
            if v:
                break
            k = op['op']
            kinds.append(k)
            where = 'op %d %s' % (oi, k)
            if k in ('alter', 'group_alter', 'alter_vin', 'set', 'set_alter_same'):
                if not targets:
                    continue
                name, pn = targets[int(op['pick'] * len(targets)) % len(targets)]
                mdl = ss.models[name]
                uid = int(op['pick2'] * mdl.n) % mdl.n
                idx = mdl.idx.v[uid]
                p = mdl.__dict__[pn]
                old_vin = float(ref.vin[(name, pn)][uid])
                new = old_vin * op['factor'] if old_vin != 0 else 0.01 * op['factor']
                if ss.TDS.initialized and pn in ('M', 'T1', 'T2', 'T3', 'TA', 'TE', 'TR', 'Td10', 'Tq10', 'Td20', 'Tq20'):
                    pass
                try:
                    if k == 'alter':
                        mdl.alter(pn, idx, new)
                        ref.vin[(name, pn)][uid] = new
                        ref.set_marks.discard((name, pn, uid))
                        altered.append((name, pn, uid))
                    elif k == 'group_alter':
                        grp = ss.groups[mdl.group]
                        if pn not in getattr(grp, 'common_params', []):
                            mdl.alter(pn, idx, new)
                        else:
                            grp.alter(pn, idx, new)
                            probes['group_alter'] = probes.get('group_alter', 0) + 1
                        ref.vin[(name, pn)][uid] = new
                        ref.set_marks.discard((name, pn, uid))
                        altered.append((name, pn, uid))
                    elif k == 'alter_vin':
                        # value given on the system base
                        co = ref.coeff(mdl)
                        kk = ref.k_of(mdl, p, co)[uid]
                        mdl.alter(pn, idx, new * kk, attr='vin')
                        ref.vin[(name, pn)][uid] = new
                        ref.set_marks.discard((name, pn, uid))
                        altered.append((name, pn, uid))
                    elif k == 'set_alter_same':
                        # the value in effect is changed directly (set), then the same value is given through the alteration
                        # call: both representations must end up at that value although nothing changes for `v`
                        co = ref.coeff(mdl)
                        kk = float(ref.k_of(mdl, p, co)[uid])
                        target_v = float(np.asarray(p.v)[uid]) * op['factor']
                        mdl.set(pn, idx, 'v', target_v)
                        ref.set_marks.add((name, pn, uid))
                        if kk != 0 and np.isfinite(kk):
                            mdl.alter(pn, idx, target_v / kk)
                            ref.vin[(name, pn)][uid] = target_v / kk
                            ref.set_marks.discard((name, pn, uid))
                            altered.append((name, pn, uid))
                    else:
                        mdl.set(pn, idx, 'v', float(np.asarray(p.v)[uid]) * op['factor'])
                        ref.set_marks.add((name, pn, uid))
                    probes[k] = probes.get(k, 0) + 1
                except Exception as e:
                    v.append(V('alter_raises', '[%s] %s.%s idx=%r raised %s: %s' % (where, name, pn, idx, type(e).__name__, str(e)[:100]),
                               what=k, type=type(e).__name__))
                    break
                ref.check(where, v, probes)
            elif k == 'alter_base_reset':
                # a device base (Sn) is altered and the system is set up again (reset): every flagged quantity of the device
                # must then sit on the *new* base
                if ss.TDS.initialized:
                    continue
                cands = sorted(n_ for n_, m_ in ss.models.items() if m_.n and 'Sn' in m_.num_params and 'Sn' not in m_.params_ext
                               and (n_, 'Sn') in ref.vin and any(any(p_.property.get(kk) for kk in KINDS) for p_ in m_.num_params.values()))
                if not cands:
                    continue
                name = cands[int(op['pick'] * len(cands)) % len(cands)]
                mdl = ss.models[name]
                uid = int(op['pick2'] * mdl.n) % mdl.n
                new = float(ref.vin[(name, 'Sn')][uid]) * op['factor']
                try:
                    mdl.alter('Sn', mdl.idx.v[uid], new)
                    ref.vin[(name, 'Sn')][uid] = new
                    ss.reset()
                    ref.set_marks.clear()
                except Exception as e:
                    v.append(V('alter_raises', '[%s] %s.Sn altered then reset raised %s: %s' % (where, name, type(e).__name__, str(e)[:100]),
                               what=k, type=type(e).__name__))
                    break
                probes['alter_base_reset'] = probes.get('alter_base_reset', 0) + 1
                ref.check(where, v, probes)
            elif k == 'check':
                ref.check(where, v, probes)
            elif k == 'pflow':
                ok = ss.PFlow.run()
                if ok:
                    _residual_effect(ss, ref, altered, where, v, probes)
                ref.check(where, v, probes)
            elif k == 'reset':
                if ss.TDS.initialized:
                    continue
                ss.reset()
                ref.set_marks.clear()
                probes['reset'] = probes.get('reset', 0) + 1
                ref.check(where, v, probes)
            elif k == 'tds_init':
                if not ss.PFlow.converged:
                    if not ss.PFlow.run():
                        break
                ss.TDS.init()
                ref.check(where, v, probes)
            elif k == 'alter_tconst':
                if not ss.TDS.initialized:
                    continue
                cands = []
                for name, mdl in ss.exist.tds.items():
                    for sn, st in mdl.states.items():
                        if st.t_const is not None and hasattr(st.t_const, 'vin') and st.t_const.vin is not None and \
                                st.t_const.name in mdl.num_params and (name, st.t_const.name) in ref.vin:
                            cands.append((name, sn, st.t_const.name))
                if not cands:
                    continue
                cands = sorted(cands)
                shared = [c for c in cands if sum(1 for d in cands if d[0] == c[0] and d[2] == c[2]) > 1]
                if shared and (op['pick'] * 7919) % 1.0 < 0.5:
                    cands = shared
                name, sn, pn = cands[int(op['pick'] * len(cands)) % len(cands)]
                mdl = ss.models[name]
                uid = 0
                idx = mdl.idx.v[uid]
                old = float(ref.vin[(name, pn)][uid])
                if old == 0:
                    continue
                new = old * op['factor']
                mdl.alter(pn, idx, new)
                ref.vin[(name, pn)][uid] = new
                probes['time_const_altered'] = probes.get('time_const_altered', 0) + 1
                tv = float(np.asarray(mdl.__dict__[pn].v)[uid])
                # every state integrated with this time constant (one parameter may serve several states, e.g. REGCA1.Tg)
                users = [s2 for s2, st2 in mdl.states.items() if st2.t_const is mdl.__dict__[pn]]
                if len(users) > 1:
                    probes['shared_time_const_altered'] = probes.get('shared_time_const_altered', 0) + 1
                for s2 in users:
                    a = int(mdl.__dict__[s2].a[uid])
                    if ss.dae.Tf[a] != tv or ss.TDS.Teye[a, a] != tv:
                        v.append(V('time_constant', '[%s] %s.%s altered to %r (system base %r): for state %s dae.Tf holds %r, TDS.Teye '
                                   'holds %r' % (where, name, pn, new, tv, s2, ss.dae.Tf[a], ss.TDS.Teye[a, a]), what='not_propagated'))
                        break
                ref.check(where, v, probes)
            elif k == 'segment':
                if not ss.TDS.initialized:
                    continue
                hist = tdssim.new_hist()
                taps = tdssim.Taps(hist, persist=False, check_mirror=True).install(ss)
                ss.TDS.config.tf = float(ss.dae.t) + op['tf']
                ss.TDS.run()
                taps.remove()
                v += tdssim.o_rule_mirror(hist)
                ref_marks_from_events = False
            elif k in ('export_json', 'export_xlsx'):
                import andes
                if k == 'export_json':
                    buf = io.StringIO()
                    andes.io.json.write(ss, buf)
                    data = json.loads(buf.getvalue())
                    last_json = buf.getvalue()
                    _check_export(data, ss, ref, where, v, 'json')
                else:
                    import pandas as pd
                    sdir = sdir or scratch_dir('c11-')
                    path = os.path.join(sdir, 'exp%d.xlsx' % oi)
                    andes.io.xlsx.write(ss, path, overwrite=True)
                    dfs = pd.read_excel(path, sheet_name=None, engine='openpyxl')
                    data = {name: df.to_dict(orient='records') for name, df in dfs.items()}
                    _check_export(data, ss, ref, where, v, 'xlsx')
                probes[k] = probes.get(k, 0) + 1
                if exported_before and altered:
                    probes['export_after_earlier_export'] = 1
                exported_before = True
            elif k == 'reload':
                import andes
                buf = io.StringIO()
                andes.io.json.write(ss, buf)
                s2 = andes.System(default_config=True, no_output=True, autogen_stale=False)
                andes.io.json.read(s2, io.StringIO(buf.getvalue()))
                s2.setup()
                probes['reload'] = probes.get('reload', 0) + 1
                for (name, pn), vin_ref in ref.vin.items():
                    m2 = s2.models[name]
                    if m2.n != len(vin_ref):
                        v.append(V('reload', '[%s] reloaded export has %d %s devices, original %d' % (where, m2.n, name, len(vin_ref)),
                                   what='count'))
                        break
                    if ss.models[name].__dict__[pn].export is False:
                        continue
                    got = np.asarray(m2.__dict__[pn].vin, float)
                    mask = np.array([(name, pn, i) not in ref.set_marks for i in range(m2.n)])
                    if not np.allclose(got[mask], vin_ref[mask], rtol=1e-12, atol=0, equal_nan=True):
                        i = int(np.where(mask & ~np.isclose(got, vin_ref, rtol=1e-12, equal_nan=True))[0][0])
                        v.append(V('reload', '[%s] %s.%s[%d]: reloaded export holds %r, history says %r' % (where, name, pn, i, got[i], vin_ref[i]),
                                   what='value'))
                        break
    except Exception as e:
        import traceback
        tb = traceback.extract_tb(e.__traceback__)
        where2 = next(('%s:%s' % (fr.filename.split('/')[-1], fr.name) for fr in reversed(tb) if '/andes/' in fr.filename), None)
        if where2 is None:
            raise
        v.append(V('lifecycle', 'operation %r raised %s in %s: %s' % (kinds[-1] if kinds else None, type(e).__name__, where2, str(e)[:120]),
                   what='raised', where=where2))
    finally:
        if sdir:
            import shutil
            shutil.rmtree(sdir, ignore_errors=True)
    res['probes'] = probes
    res['faults'] = {}
    res['sig'] = json.dumps([plan['case'], bool(plan.get('scale_bases')), kinds])
    res['nontrivial'] = bool(probes.get('alter') or probes.get('alter_vin') or probes.get('group_alter') or probes.get('set')
                             or probes.get('time_const_altered'))
    res['steps'] = len(kinds)
    d = core.Digest()
    d.add(res['sig'], sorted(core.vclass(x) for x in v), sorted(probes.items()))
    res['digest'] = d.hex()
    return res


def _residual_effect(ss, ref, altered, where, v, probes):
    """After a converged power flow an altered PQ.p0/q0 is what the load injects (inside the voltage band)."""
    for (name, pn, uid) in altered:
        if name != 'PQ' or pn not in ('p0', 'q0') or (name, pn, uid) in ref.set_marks:
            continue
        mdl = ss.PQ
        if mdl.u.v[uid] != 1 or mdl.vcmp.zi[uid] != 1:
            continue
        e = mdl.a.e[uid] if pn == 'p0' else mdl.v.e[uid]
        co = ref.coeff(mdl)
        exp = ref.vin[(name, pn)][uid] * co['power'][uid]
        probes['residual_effect_checked'] = probes.get('residual_effect_checked', 0) + 1
        if not np.isclose(e, exp, rtol=1e-9, atol=1e-12):
            v.append(V('takes_effect', '[%s] PQ.%s[%d] altered to %r (system base %r) but the load injects %r in the converged power flow' %
                       (where, pn, uid, ref.vin[(name, pn)][uid], exp, e), what='residual'))
            return


def _check_export(data, ss, ref, where, v, fmt):
    for (name, pn), vin_ref in ref.vin.items():
        if name not in data or ss.models[name].__dict__[pn].export is False:
            continue
        recs = data[name]
        if len(recs) != len(vin_ref):
            v.append(V('export', '[%s] %s export has %d %s rows, system has %d' % (where, fmt, len(recs), name, len(vin_ref)), what='rows', fmt=fmt))
            return
        for i, rec in enumerate(recs):
            if (name, pn, i) in ref.set_marks or pn not in rec:
                continue
            got = rec[pn]
            if got is None or (isinstance(got, float) and np.isnan(got) and np.isnan(vin_ref[i])):
                continue
            try:
                gotf = float(got)
            except (TypeError, ValueError):
                continue
            if not np.isclose(gotf, vin_ref[i], rtol=1e-12, atol=0):
                v.append(V('export', '[%s] %s export writes %s.%s[%d] = %r, the input-base value after the history is %r' %
                           (where, fmt, name, pn, i, gotf, vin_ref[i]), what='stale_value', fmt=fmt))
                return


def simplify(plan):
    if plan.get('scale_bases'):
        q = json.loads(json.dumps(plan))
        q['scale_bases'] = False
        yield q


REGRESSION = [
    # the history that exposed the stale json cache: export, alter, export again
    {'property': PROP, 'seed': 21, 'case': '5bus/pjm5bus.json', 'scale_bases': False,
     'ops': [{'op': 'export_json'}, {'op': 'alter', 'pick': 0.3, 'pick2': 0.2, 'factor': 2.0}, {'op': 'export_json'}, {'op': 'export_xlsx'},
             {'op': 'pflow'}, {'op': 'alter', 'pick': 0.31, 'pick2': 0.2, 'factor': 0.5}, {'op': 'export_json'}, {'op': 'reload'}]},
    {'property': PROP, 'seed': 22, 'case': 'kundur/kundur_full.xlsx', 'scale_bases': True,
     'ops': [{'op': 'check'}, {'op': 'pflow'}, {'op': 'tds_init'}, {'op': 'alter_tconst', 'pick': 0.1, 'factor': 2.0},
             {'op': 'segment', 'tf': 0.2}, {'op': 'export_json'}, {'op': 'reload'}]},
    # one parameter serving as the time constant of several states (REGCA1.Tg, REPCA1.Tfltr, ...)
    {'property': PROP, 'seed': 23, 'case': 'ieee14/ieee14_wt3.xlsx', 'scale_bases': False,
     'ops': [{'op': 'pflow'}, {'op': 'tds_init'}, {'op': 'alter_tconst', 'pick': 0.0, 'factor': 2.0},
             {'op': 'alter_tconst', 'pick': 0.26, 'factor': 0.5}, {'op': 'alter_tconst', 'pick': 0.52, 'factor': 3.0},
             {'op': 'alter_tconst', 'pick': 0.77, 'factor': 1.5}, {'op': 'segment', 'tf': 0.2}]},
]
