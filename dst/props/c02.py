"""
C02 -- generated numerical code computes the declared model equations (lifecycle clause).

Engine: codegen-store.  Claimed: regenerating code from an unchanged model yields functionally identical code, and
code that no longer matches the model is never silently used -- whatever happened to the on-disk store before.
Every scenario works on a PRIVATE copy of the generated-code store (its own HOME) and drives it through fresh
interpreters (dst/c02_child.py), because the store is process-global state:
  edit       a model's equation string is changed (seeded model / variable / expression) -> new System in a fresh
             interpreter must regenerate and execute the edited equation; a second fresh interpreter with the original model
             finds the store stale again and must execute the original equation
  stale_md5  the md5 recorded in a store file is overwritten -> regeneration, file restored byte-identically
  torn       a store file is truncated at a seeded byte (torn write) -> regeneration or a loud error, never a System whose
             executed code disagrees with the model
  deleted    __init__.py or one model file is removed
  crash      code generation dies after k pool tasks in a seeded completion order (SimPool) -> a later start must end with a
             complete, matching store
  regen      two regenerations (real pool, and in-process pool with seeded task order) are byte-identical
Oracle in the child: the loaded residual functions of the probe models (Shunt, PQ, Line, GENCLS) are executed through the
model's own name-based argument binding on seeded values and compared with an independent sympy evaluation (parse by
symbol name, xreplace name -> value; no lambdify, no argument ordering, no numpy printer) of the *currently declared*
strings, and calls.md5 == get_md5().
"""

import json
import os
import shutil
import subprocess

from dst import core
from dst.core import stream
from dst.tdssim import V
from dst.world import scratch_dir

PROP = 'C02'
LEVEL = 'exploration'
COUNTS = {'quick': 28, 'thorough': 800}
BUDGET = {'quick': 140, 'thorough': 1700}
TIMEOUT = 1200
WORKERS = 6          # every scenario starts fresh interpreters and code generations that use their own process pool
DETERMINISM_SMOKE = 2
MIN_EVALS = {'quick': 6, 'thorough': 30}
SHRINK_LISTS = []
EXPECTED_PROBES = ['edit', 'stale_md5', 'torn', 'deleted', 'crash', 'regen', 'evals', 'regenerated_models', 'loud_failure',
                   'case_models_evaluated', 'case_values_compared', 'all_cases_evaluated', 'md5_overwritten']
RULE = ('plan = (scenario kind, seeded model/variable/expression or byte offset or crash point); non-trivial = the store was really '
        'perturbed (edit applied, bytes changed, generation interrupted) and a fresh interpreter evaluated the loaded code afterwards; '
        'distinct = (kind, model, detail)')
ASSUMPTIONS = [
    'the "for all arguments" clause is not decided: after every lifecycle step the loaded code is compared with the declared strings at '
    'seeded points only (four probe models of a hand-built system at 1e-9, and every model in use of one seeded stock case per '
    'evaluation at 1e-6: residuals, variable/constant services, explicit initialisation assignments); this technique contributes the '
    'store lifecycle',
    'edits are applied by patching the model class constructor in the child interpreter (what a developer editing the file amounts to)',
    'tampering with generated code while keeping its md5 is outside the md5 gate by design and not injected',
]
EDITS = [
    {'model': 'Shunt', 'var': 'a', 'expr': '($) * 1.01'},
    {'model': 'Shunt', 'var': 'v', 'expr': '($) + 0.001 * u * g'},
    {'model': 'Shunt', 'var': 'a', 'expr': 'u * v**2 * g * 2'},        # different length
    {'model': 'Shunt', 'var': 'a', 'expr': 'u * v**2 * b'},            # same length as the original
    {'model': 'PQ', 'var': 'a', 'expr': '($) * 0.99'},
    {'model': 'PQ', 'var': 'v', 'expr': '($) + 0.002 * u'},
]
STORE_FILES = ['Shunt.py', 'PQ.py', 'Line.py', 'GENCLS.py', 'Bus.py', 'GENROU.py', 'TGOV1.py', 'Toggle.py']


def plans(seed, tier, count):
    out = []
    for i, e in enumerate(EDITS):
        out.append({'property': PROP, 'seed': core.H('fix02', 'edit', i), 'kind': 'edit', 'edit': e})
    out.insert(0, {'property': PROP, 'seed': core.H('fix02', 'regen'), 'kind': 'regen', 'all_cases': True})
    out.insert(1, {'property': PROP, 'seed': core.H('fix02', 'live', 0), 'kind': 'edit_live', 'edit': EDITS[0]})
    out.insert(2, {'property': PROP, 'seed': core.H('fix02', 'live', 1), 'kind': 'edit_live', 'edit': EDITS[-1]})
    out.append({'property': PROP, 'seed': core.H('fix02', 'del_init'), 'kind': 'deleted', 'file': '__init__.py'})
    # truncations behind the checksum line (the file still names the right md5, its body is gone) and an overwritten checksum
    out.insert(1, {'property': PROP, 'seed': core.H('fix02', 'torn', 0), 'kind': 'torn', 'file': 'Shunt.py', 'frac': 0.6})
    out.insert(2, {'property': PROP, 'seed': core.H('fix02', 'torn', 1), 'kind': 'torn', 'file': 'GENCLS.py', 'frac': 0.93})
    out.insert(3, {'property': PROP, 'seed': core.H('fix02', 'md5', 0), 'kind': 'stale_md5', 'file': 'PQ.py'})
    i = 0
    while len(out) < count:
        out.append({'stub': True, 'seed': core.H(seed, PROP, i), 'tier': tier})
        i += 1
    return out[:max(count, 1)]


def elaborate(stub):
    seed = stub['seed']
    r = stream(seed, 'kind')
    kind = r.choice(['edit', 'edit', 'edit_live', 'stale_md5', 'torn', 'torn', 'torn', 'deleted', 'crash', 'crash', 'regen'])
    p = {'property': PROP, 'seed': seed, 'kind': kind}
    if kind in ('edit', 'edit_live'):
        p['edit'] = r.choice(EDITS)
    elif kind in ('stale_md5', 'torn', 'deleted'):
        p['file'] = r.choice(STORE_FILES) if not (kind == 'deleted' and r.random() < 0.25) else '__init__.py'
        p['frac'] = round(r.random(), 4)
    elif kind == 'crash':
        p['k'] = r.randint(0, 97)
    return p


def child(home, spec, timeout=360):
    env = dict(os.environ, HOME=home, PYTHONHASHSEED=str(spec.get('seed', 0) % 1000))
    r = subprocess.run([core.PY, os.path.join(core.VERIF, 'dst', 'c02_child.py'), json.dumps(spec)], env=env, stdout=subprocess.PIPE,
                       stderr=subprocess.PIPE, timeout=timeout, cwd=home)
    for ln in r.stdout.decode(errors='replace').splitlines():
        if ln.startswith('RESULT '):
            return json.loads(ln[7:]), r.returncode
    return {'steps': [], 'stderr': r.stderr.decode(errors='replace')[-800:]}, r.returncode


def judge_eval(res, where, v, probes, must_load=True):
    """Inspect the steps of one child run. Returns True if a System was evaluated."""
    evaluated = False
    for st in res.get('steps', []):
        if not st.get('ok'):
            probes['loud_failure'] = probes.get('loud_failure', 0) + 1
            if must_load:
                v.append(V('store', '[%s] %s failed: %s' % (where, st['op'], st.get('exc')), what='unexpected_failure', op=st['op'].split(':')[0]))
            return evaluated
        if st['op'] == 'new_system' and st.get('stale_after'):
            v.append(V('store', '[%s] models %s are still stale after System() returned' % (where, st['stale_after'][:4]), what='stale_after_load'))
        if st['op'] == 'eval':
            evaluated = True
            probes['evals'] = probes.get('evals', 0) + 1
            for m, r in st['eval'].items():
                mname = m.split('@')[0]
                if '@' in m:
                    probes['case_models_evaluated'] = probes.get('case_models_evaluated', 0) + 1
                    probes['case_values_compared'] = probes.get('case_values_compared', 0) + int(r.get('compared', 0))
                if r.get('checker_error'):
                    probes['checker_error'] = probes.get('checker_error', 0) + 1
                elif r.get('error'):
                    v.append(V('loaded_code', '[%s] executing the loaded code of %s raised %s' % (where, m, r['error'][:160]), what='raises',
                               model=mname))
                elif r['worst'] > (1e-6 if '@' in m else 1e-9):
                    v.append(V('loaded_code', '[%s] %s' % (where, r['detail']), what='disagrees_with_model', model=mname))
                elif not r['md5_ok']:
                    v.append(V('loaded_code', '[%s] %s: md5 of the loaded code differs from the model' % (where, m), what='md5', model=mname))
    if not res.get('steps') and must_load:
        v.append(V('store', '[%s] child interpreter produced no result: %s' % (where, res.get('stderr', '')[-300:]), what='no_result'))
    return evaluated


def execute(plan):
    if plan.get('stub'):
        plan = elaborate(plan)
    res = {'plan': plan, 'violations': []}
    v = res['violations']
    probes = {}
    shared = os.environ['HOME']
    home = scratch_dir('c02-')
    try:
        shutil.copytree(os.path.join(shared, '.andes'), os.path.join(home, '.andes'))
        store = os.path.join(home, '.andes', 'pycode')
        kind = plan['kind']
        seed = plan['seed'] % (2 ** 31)
        probes[kind] = 1
        detail = None
        if kind == 'edit':
            e = plan['edit']
            detail = '%s.%s' % (e['model'], e['var'])
            before = _read(store, e['model'] + '.py')
            r1, _ = child(home, {'edit': e, 'ops': ['new_system', 'eval'], 'seed': seed})
            judge_eval(r1, 'edited model, first start', v, probes)
            after = _read(store, e['model'] + '.py')
            if after == before:
                v.append(V('store', 'the equation of %s was changed but its generated code on disk was not regenerated' % detail, what='not_regenerated'))
            else:
                probes['regenerated_models'] = probes.get('regenerated_models', 0) + 1
            # a second start with the edit still in place must not regenerate again (store now matches) and still evaluate right
            r2, _ = child(home, {'edit': e, 'ops': ['new_system', 'eval'], 'seed': seed + 1})
            judge_eval(r2, 'edited model, second start', v, probes)
            # back to the original model: the store is stale in the other direction
            r3, _ = child(home, {'edit': None, 'ops': ['new_system', 'eval'], 'seed': seed + 2})
            judge_eval(r3, 'original model on a store generated for the edited one', v, probes)
            if _read(store, e['model'] + '.py') != before:
                v.append(V('regen_identity', 'regenerating %s for the original model does not restore the original bytes' % e['model'],
                           what='bytes_differ'))
        elif kind == 'edit_live':
            e = plan['edit']
            detail = 'live %s.%s' % (e['model'], e['var'])
            before = _read(store, e['model'] + '.py')
            # one interpreter: load, evaluate, edit the equation on the live instance, regenerate incrementally in place, evaluate again
            r1, _ = child(home, {'live_edit': e, 'ops': ['new_system', 'eval', 'edit_live', 'prepare_live', 'eval'], 'seed': seed, 'cases': []})
            judge_eval(r1, 'equation edited on the live System, incremental regeneration in the same process', v, probes)
            steps = {s_['op']: s_ for s_ in (r1 or {}).get('steps', [])}
            if 'prepare_live' in steps and steps['prepare_live'].get('ok') and e['model'] not in steps['prepare_live'].get('regenerated', []):
                v.append(V('store', 'the equation of %s was changed on the live System but an incremental regeneration on that instance did '
                           'not regenerate the model' % detail, what='not_regenerated_live'))
            else:
                probes['regenerated_models'] = probes.get('regenerated_models', 0) + 1
            # a fresh session with the stock model: whatever the first session left on disk must not be used for the stock equations
            r2, _ = child(home, {'ops': ['new_system', 'eval'], 'seed': seed + 1})
            judge_eval(r2, 'stock model after a session that edited it live', v, probes)
            if _norm(e['model'] + '.py', _read(store, e['model'] + '.py')) != _norm(e['model'] + '.py', before):
                v.append(V('regen_identity', 'after the live edit of %s a fresh session does not restore the original generated bytes' % e['model'],
                           what='bytes_differ'))
        elif kind == 'stale_md5':
            f = plan['file']
            detail = f
            before = _read(store, f)
            txt = before.decode()
            i = max(txt.find("md5 = '"), txt.find('md5 = "'))
            if i < 0:
                raise core.HarnessError('generated file %s carries no md5 line' % f)
            txt2 = txt[:i + 7] + '0' * 32 + txt[i + 7 + 32:]
            probes['md5_overwritten'] = 1
            _write(store, f, txt2.encode())
            r1, _ = child(home, {'ops': ['new_system', 'eval'], 'seed': seed})
            judge_eval(r1, 'stale md5 in %s' % f, v, probes)
            if _norm(f, _read(store, f)) != _norm(f, before):
                v.append(V('store', '%s with a stale md5 was not regenerated to the original bytes' % f, what='not_regenerated'))
            else:
                probes['regenerated_models'] = probes.get('regenerated_models', 0) + 1
        elif kind == 'torn':
            f = plan['file']
            before = _read(store, f)
            cut = max(1, int(len(before) * plan['frac']))
            detail = '%s@%d' % (f, cut * 10 // len(before))
            _write(store, f, before[:cut])
            r1, _ = child(home, {'ops': ['new_system', 'eval'], 'seed': seed})
            ev = judge_eval(r1, 'torn %s (%d of %d bytes)' % (f, cut, len(before)), v, probes, must_load=False)
            if ev and _read(store, f) == before[:cut] and f.split('.')[0] in ('Shunt', 'PQ', 'Line', 'GENCLS'):
                # a System was produced and evaluated fine although the file is still torn: only possible if the torn part is unused
                pass
            # recovery: the documented remedy (full code generation) must always give a matching store
            r2, _ = child(home, {'ops': ['prepare_full', 'new_system', 'eval'], 'seed': seed + 1})
            judge_eval(r2, 'after prepare() on the torn store', v, probes)
            if _norm(f, _read(store, f)) != _norm(f, before):
                v.append(V('regen_identity', 'prepare() after a torn %s does not restore the original bytes' % f, what='bytes_differ'))
        elif kind == 'deleted':
            f = plan['file']
            detail = f
            before = _read(store, f)
            os.remove(os.path.join(store, f))
            r1, _ = child(home, {'ops': ['new_system', 'eval'], 'seed': seed})
            judge_eval(r1, 'deleted %s' % f, v, probes)
            if not os.path.isfile(os.path.join(store, f)) or _norm(f, _read(store, f)) != _norm(f, before):
                v.append(V('store', 'deleted %s was not regenerated to the original bytes' % f, what='not_regenerated'))
            else:
                probes['regenerated_models'] = probes.get('regenerated_models', 0) + 1
        elif kind == 'crash':
            detail = 'k=%d' % (plan['k'] // 20)
            # start from an emptied store so that the interrupted generation really leaves a partial one
            for fn in os.listdir(store):
                os.remove(os.path.join(store, fn))
            r1, _ = child(home, {'ops': ['pool_crash:%d' % plan['k']], 'seed': seed})
            crashed = any(st.get('crashed') for st in r1.get('steps', []))
            r2, _ = child(home, {'ops': ['new_system', 'eval', 'hash'], 'seed': seed + 1})
            judge_eval(r2, 'start after generation crashed at task %d' % plan['k'], v, probes)
            h2 = next((st['hash'] for st in r2.get('steps', []) if st['op'] == 'hash'), None)
            ref = _hash_dir(os.path.join(shared, '.andes', 'pycode'))
            if h2 is not None and h2 != ref:
                bad = sorted(k for k in set(ref) | set(h2) if ref.get(k) != h2.get(k))
                v.append(V('regen_identity', 'store rebuilt after an interrupted generation differs from a clean one in %s' % bad[:5],
                           what='bytes_differ'))
            if not crashed:
                probes['crash'] = 0
        elif kind == 'regen':
            detail = 'pool'
            ref = _hash_dir(store)
            r1, _ = child(home, {'ops': ['prepare_full', 'hash', 'pool_order', 'hash', 'new_system', 'eval'], 'seed': seed})
            judge_eval(r1, 'two regenerations', v, probes)
            # the freshly generated store, every model in use of every evaluation case
            r2, _ = child(home, {'ops': ['eval'], 'cases': 'all' if plan.get('all_cases') else 6, 'seed': seed + 1}, timeout=900)
            judge_eval(r2, 'store after two regenerations, all evaluation cases', v, probes)
            probes['all_cases_evaluated'] = int(any(st.get('op') == 'eval' and st.get('ok') for st in r2.get('steps', [])))
            hs = [st['hash'] for st in r1.get('steps', []) if st['op'] == 'hash']
            for j, h in enumerate(hs):
                if h != ref:
                    bad = sorted(k for k in set(ref) | set(h) if ref.get(k) != h.get(k))
                    v.append(V('regen_identity', 'regeneration %d of an unchanged model set differs from the store in %s' % (j, bad[:5]),
                               what='bytes_differ', how='real_pool' if j == 0 else 'seeded_order'))
        res['probes'] = probes
        res['faults'] = {kind: 1}
        res['sig'] = json.dumps([kind, detail])
        res['nontrivial'] = bool(probes.get('evals'))
        res['steps'] = probes.get('evals', 0)
        d = core.Digest()
        d.add(res['sig'], sorted(core.vclass(x) for x in v), sorted(probes.items()))
        res['digest'] = d.hex()
    finally:
        shutil.rmtree(home, ignore_errors=True)
    return res


def _read(store, f):
    with open(os.path.join(store, f), 'rb') as fh:
        return fh.read()


def _norm(f, blob):
    """__init__.py records andes.__version__ (derived by versioneer from the git state of the checkout): not generated code."""
    if f == '__init__.py':
        return b'\n'.join(ln for ln in blob.split(b'\n') if not ln.startswith(b'__version__'))
    return blob


def _write(store, f, data):
    with open(os.path.join(store, f), 'wb') as fh:
        fh.write(data)


def _hash_dir(d):
    import hashlib
    out = {}
    for f in sorted(os.listdir(d)):
        if f.endswith('.py'):
            with open(os.path.join(d, f), 'rb') as fh:
                out[f] = hashlib.sha256(_norm(f, fh.read())).hexdigest()[:16]
    return out
