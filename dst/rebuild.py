"""
Rebuild a stock case through System.add in a seeded device order with seeded index re-typing
(numeric <-> string, consistently across all references).  Used by the lifecycle engines (C10, C11, C19).
"""

import numpy as np

DROP_GROUPS = ('TimedEvent', 'OutputSelect', 'DataSeries')
# index parameters that do not declare their target (ANDES naming convention) -> group they refer to
UNTYPED = {'bus': 'ACTopology', 'busr': 'ACTopology', 'busr2': 'ACTopology', 'gen': 'StaticGen', 'rea': 'RenAerodynamics',
           'ree': 'RenExciter', 'rego': 'RenGovernor', 'rep': 'RenPitch'}
# models whose untyped `dev` parameter may point anywhere: no re-typing for cases that contain them
NO_REMAP_MODELS = ('DGPRCT1', 'DGPRCTExt')


def extract(ss0):
    """Rows [(model, {param: value})] from a loaded (not yet set up) System, in file order."""
    rows = []
    for name, mdl in ss0.models.items():
        if not mdl.n or mdl.group in DROP_GROUPS:
            continue
        for i in range(mdl.n):
            d = {}
            for pn, p in mdl.params.items():
                if pn in mdl.params_ext or len(p.v) <= i:
                    continue
                val = p.v[i]
                if isinstance(val, np.generic):
                    val = val.item()
                d[pn] = val
            rows.append((name, d))
    return rows


def group_of(ss0, name):
    if name in ss0.models:
        return ss0.models[name].group
    if name in ss0.groups:
        return name
    return None


def remap(ss0, rows, rng, modes=None):
    """
    Re-type device indices per group.  modes: {group: 'keep'|'str'|'int'}; groups not listed get a seeded choice.
    Returns (rows2, maps) where maps[group][old_idx] = new_idx.
    """
    modes = dict(modes or {})
    maps = {}
    if any(m in NO_REMAP_MODELS for m, _ in rows):
        modes = {ss0.models[m].group: 'keep' for m, _ in rows}
    groups = sorted({ss0.models[m].group for m, _ in rows})
    for g in groups:
        mode = modes.get(g) or rng.choice(['keep', 'keep', 'str', 'int', 'int0', 'digits'])
        olds = [d['idx'] for m, d in rows if ss0.models[m].group == g and 'idx' in d]
        mp = {}
        for k, o in enumerate(olds):
            if mode == 'keep':
                mp[o] = o
            elif mode == 'str':
                mp[o] = '%s_%s' % (g[:4], o) if not (isinstance(o, str) and o.startswith(g[:4] + '_')) else o
            elif mode == 'digits':
                mp[o] = ('%d' if k % 3 else '%02d') % (k + 1)     # strings that look like numbers ('2', '07') stay strings
            elif mode == 'int0':
                mp[o] = k               # numbering from zero: 0 is a legal index and falsy
            else:
                mp[o] = 7000 + k
        maps[g] = mp
        modes[g] = mode
    out = []
    for m, d in rows:
        mdl = ss0.models[m]
        d2 = dict(d)
        if 'idx' in d:
            d2['idx'] = maps[mdl.group][d['idx']]
        for pn, p in mdl.idx_params.items():
            tgt = group_of(ss0, p.model) if p.model else UNTYPED.get(pn)
            if tgt is None or tgt not in maps:
                continue
            v = d[pn]
            if isinstance(v, (list, tuple, np.ndarray)):
                d2[pn] = [maps[tgt].get(x, x) for x in v]
            elif v is not None and not (isinstance(v, float) and np.isnan(v)):
                d2[pn] = maps[tgt].get(v, v)
        out.append((m, d2))
    return out, maps, modes


def shuffled(rows, rng, how='interleave'):
    rows = list(rows)
    if how == 'file':
        return rows
    if how == 'reverse':
        return rows[::-1]
    if how == 'models_shuffled':
        by = {}
        for m, d in rows:
            by.setdefault(m, []).append((m, d))
        names = list(by)
        rng.shuffle(names)
        return [r for n in names for r in by[n]]
    rng.shuffle(rows)
    return rows


def build(rows, **kwargs):
    import andes
    ss = andes.System(default_config=True, no_output=True, autogen_stale=False, **kwargs)
    for m, d in rows:
        dd = {k: v for k, v in d.items() if not (isinstance(v, float) and np.isnan(v))}
        ss.add(m, dd)
    return ss
