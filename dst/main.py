"""
Driver: ./check <ID> [--tier quick|thorough] [--seed N] [--replay FILE] [--count N] [--budget S]

exit 0  property held on everything explored (KNOWN-FINDING lines may be printed)
exit 1  at least one ``VIOLATION property=<ID> replay=<path>`` not listed in known_findings.json
exit 2  harness error (never a VIOLATION line)
"""

import argparse
import importlib
import json
import os
import sys
import time

from dst import core


def _compact(plan, limit=2500):
    s = json.dumps(plan, default=str, sort_keys=True)
    if len(s) <= limit:
        return plan
    return {'truncated_json': s[:limit] + '...'}


def main(argv=None):
    ap = argparse.ArgumentParser()
    ap.add_argument('prop')
    ap.add_argument('--tier', default=os.environ.get('VERIF_TIER', 'quick'), choices=core.TIERS)
    ap.add_argument('--seed', type=int, default=None)
    ap.add_argument('--replay', default=None)
    ap.add_argument('--count', type=int, default=None)
    ap.add_argument('--budget', type=float, default=None)
    ap.add_argument('--workers', type=int, default=int(os.environ.get('VERIF_WORKERS', '16')))
    ap.add_argument('--no-verify', action='store_true', help='(internal) do not re-verify replays in a fresh interpreter')
    ap.add_argument('--no-min', action='store_true', help='skip minimisation')
    ap.add_argument('--keep-going', action='store_true')
    args = ap.parse_args(argv)

    core.reexec_in_world()

    prop = args.prop.upper()
    mod = importlib.import_module('dst.props.' + prop.lower())
    tier = args.tier
    seed = args.seed
    if seed is None:
        seed = int(os.environ.get('VERIF_SEED', '20260923'))
    t_start = time.time()
    known = core.load_known(prop)
    timeout = getattr(mod, 'TIMEOUT', 120)

    def out(s):
        sys.stdout.write(s + '\n')
        sys.stdout.flush()

    out('[dst] property=%s tier=%s VERIF_SEED=%d tree=%s' % (prop, tier, seed, core.tree_hash()))

    # ------------------------------------------------------------------ replay mode
    if args.replay:
        with open(args.replay) as f:
            rp = json.load(f)
        plan = rp['plan'] if 'plan' in rp else rp
        res = core.Pool(prop, 1, timeout).map([plan])[0]
        if res.get('status') == 'harness_error':
            out('HARNESS-ERROR during replay:\n' + res.get('trace', ''))
            return 2
        bad = 0
        for v in res.get('violations', []):
            k = core.match_known(known, v)
            if k:
                out('KNOWN-FINDING: property=%s %s [%s]' % (prop, k.get('what', ''), k.get('id', '')))
            else:
                bad += 1
                out('  class=%s' % core.vclass(v))
                out('  detail=%s' % v.get('detail', ''))
                out('VIOLATION property=%s replay=%s' % (prop, os.path.abspath(args.replay)))
        if not res.get('violations'):
            out('[dst] replay: no violation (digest %s)' % res.get('digest'))
        return 1 if bad else 0

    # ------------------------------------------------------------------ batch mode
    count = args.count or mod.COUNTS[tier]
    budget = args.budget or getattr(mod, 'BUDGET', {'quick': 100, 'thorough': 1500})[tier]
    plans = mod.plans(seed, tier, count)
    n_main = len(plans)
    # determinism smoke: the first k plans are executed twice (the copies go to the end of the queue, so
    # they normally run in another worker process); digests must agree.
    k_det = min(getattr(mod, 'DETERMINISM_SMOKE', 4), n_main)
    plans = plans + [json.loads(json.dumps(p)) for p in plans[:k_det]]

    progress = {'done': 0}

    def on_result(idx, res):
        progress['done'] += 1

    nworkers = min(args.workers, getattr(mod, 'WORKERS', args.workers))
    pool = core.Pool(prop, nworkers, timeout)
    results = pool.map(plans, on_result=on_result, deadline=t_start + budget)
    wall_batch = time.time() - t_start

    main_results = [r for r in results[:n_main] if r is not None]
    harness = [r for r in results if r is not None and r.get('status') == 'harness_error']

    nondet = []
    for i in range(k_det):
        a, b = results[i], results[n_main + i]
        if a is None or b is None:
            continue
        if a.get('digest') != b.get('digest') and a.get('status') == 'ok' and b.get('status') == 'ok':
            nondet.append((i, a.get('digest'), b.get('digest')))

    # per-plan digests for the determinism self-test (tools/determinism.py): written only on request
    dig_path = os.environ.get('ANDES_DST_DIGESTS')
    if dig_path:
        with open(dig_path, 'w') as f:
            json.dump([{'i': i, 'status': (r or {}).get('status'), 'digest': (r or {}).get('digest'),
                        'classes': sorted(core.vclass(x) for x in (r or {}).get('violations', []))}
                       for i, r in enumerate(results[:n_main])], f)

    # ------------------------------------------------------------------ aggregate coverage
    sigs = {}
    probes, faults = {}, {}
    sim_s, steps = 0.0, 0
    precond = 0
    for r in main_results:
        if r.get('status') not in ('ok', 'hang', 'crash'):
            continue
        if r.get('nontrivial'):
            sigs[r.get('sig')] = sigs.get(r.get('sig'), 0) + 1
        for k, v in (r.get('probes') or {}).items():
            probes[k] = probes.get(k, 0) + int(v)
        for k, v in (r.get('faults') or {}).items():
            faults[k] = faults.get(k, 0) + int(v)
        sim_s += float(r.get('sim_seconds') or 0.0)
        steps += int(r.get('steps') or 0)
        precond += int(r.get('precondition_unmet') or 0)

    # ------------------------------------------------------------------ violations
    classes = {}
    for r in main_results:
        for v in r.get('violations', []):
            classes.setdefault(core.vclass(v), []).append((r, v))

    n_viol = 0
    n_known = 0
    lines = []
    known_hit = {}
    for cls, items in sorted(classes.items()):
        r, v = min(items, key=lambda rv: len(json.dumps(rv[0].get('plan'), default=str)))
        k = core.match_known(known, v)
        if k:
            known_hit.setdefault(k.get('id', cls), (k, 0))
            known_hit[k.get('id', cls)] = (k, known_hit[k.get('id', cls)][1] + len(items))
            n_known += len(items)
            continue
        n_viol += 1
        if n_viol > getattr(mod, 'MAX_REPORTED_CLASSES', 6):
            continue
        plan = r['plan']
        if not args.no_min:
            mb = getattr(mod, 'MIN_BUDGET', {'quick': 40, 'thorough': 300})[tier]
            try:
                plan = core.minimise(prop, plan, cls, budget_s=mb, timeout=timeout)
            except Exception as e:   # minimiser trouble must not hide the violation
                out('[dst] minimiser error: %r (reporting unminimised plan)' % (e,))
        path = core.write_replay(prop, seed, plan, v, extra={'n_runs_with_class': len(items)})
        verified = 'not-verified'
        if not args.no_verify:
            try:
                code, txt = core.replay_fresh(prop, path, timeout=timeout + 120)
                verified = 'reproduced' if code == 1 else 'NOT-reproduced(exit %d)' % code
            except Exception as e:
                verified = 'replay-error %r' % (e,)
        if verified.startswith('NOT'):
            # does not replay in a fresh interpreter: the harness is not deterministic here
            out('HARNESS-ERROR nondeterministic: class=%s replay=%s (%s)' % (cls, path, verified))
            harness.append({'trace': 'non-replayable violation ' + cls})
            n_viol -= 1
            continue
        lines.append('  class=%s\n  detail=%s\n  runs-with-this-class=%d fresh-interpreter-replay=%s' %
                     (cls, v.get('detail', ''), len(items), verified))
        lines.append('VIOLATION property=%s replay=%s' % (prop, path))

    for kid, (k, n) in sorted(known_hit.items()):
        out('KNOWN-FINDING: property=%s %s [%s; %d run(s)]' % (prop, k.get('what', ''), kid, n))
    for ln in lines:
        out(ln)

    # ------------------------------------------------------------------ evidence
    wall = time.time() - t_start
    evals = len(main_results)
    zero_probes = sorted(k for k in getattr(mod, 'EXPECTED_PROBES', []) if probes.get(k, 0) == 0)
    samples = [_compact(r['plan']) for r in main_results[:3] if r.get('plan')]
    coverage = {
        'evaluations': evals,
        'distinct_nontrivial': len(sigs),
        'rule': mod.RULE,
        'samples': samples,
        'planned': n_main,
        'runs_per_hour': int(evals / max(wall_batch, 1e-9) * 3600),
        'seeds_per_hour': int(evals / max(wall_batch, 1e-9) * 3600),
        'simulated_seconds': round(sim_s, 3),
        'attempted_steps': steps,
        'faults_fired': faults,
        'reach_probes': probes,
        'reach_probes_at_zero': zero_probes,
        'precondition_unmet': precond,
        'known_finding_runs': n_known,
        'determinism_smoke': {'pairs': k_det, 'mismatches': len(nondet)},
        'status_counts': {s: sum(1 for r in main_results if r.get('status') == s)
                          for s in ('ok', 'hang', 'crash', 'harness_error')},
        'real_components': core.REAL_COMPONENTS,
        'stub_components': core.STUB_COMPONENTS,
        'workers': nworkers,
        'exhaustive': False,
    }
    extra = getattr(mod, 'extra_coverage', None)
    if extra:
        try:
            coverage.update(extra(main_results, tier))
        except Exception as e:
            coverage['extra_coverage_error'] = repr(e)
    core.write_evidence(prop, tier, seed, mod.LEVEL, coverage, wall, n_viol,
                        getattr(mod, 'ASSUMPTIONS', []))

    out('[dst] %s: %d/%d plans in %.1fs, %d distinct non-trivial signatures, %.1f simulated s, '
        'faults=%s' % (prop, evals, n_main, wall, len(sigs), sim_s, json.dumps(faults, sort_keys=True)))
    if zero_probes:
        out('[dst] warning: reach probes at zero: %s' % ', '.join(zero_probes))

    if nondet:
        for i, a, b in nondet:
            out('HARNESS-ERROR nondeterministic digest for plan %d: %s vs %s' % (i, a, b))
    if harness:
        for h in harness[:3]:
            out('HARNESS-ERROR\n' + str(h.get('trace', ''))[-2500:])
            if h.get('plan') is not None:
                p = core.write_replay(prop, seed, h['plan'], {'sig': {'oracle': 'harness_error'}})
                out('  plan saved to %s' % p)
        out('[dst] %d harness error(s)' % len(harness))
    if n_viol:
        return 1
    if harness or nondet:
        return 2
    if evals < min(n_main, getattr(mod, 'MIN_EVALS', {'quick': 8, 'thorough': 50})[tier]):
        out('HARNESS-ERROR too few plans executed within the budget (%d)' % evals)
        return 2
    return 0


if __name__ == '__main__':
    sys.exit(main())
