"""
Independent evaluation of the *declared* equation strings of every model in use, compared with what the generated code
that was actually loaded from the store delivers (C02, used by the codegen-store scenarios in a child interpreter).

The evaluator knows nothing about argument order, lambdify or the printer: every declared string is parsed by sympy with
symbols looked up *by name*, every symbol is replaced by the value the model holds under that name for one device, and
the expression is evaluated with evalf.  The loaded code is executed through the model's own update methods
(s_update_var / f_update / g_update / s_update) or, for initialisation assignments, through the stored call with the
stored argument list.

Only string-declared equations are judged; numeric call-backs (v_numeric, e_numeric, j_numeric) are outside C02.
Anything the evaluator cannot evaluate to a finite number (free symbol left, domain error) is counted, never judged.
"""

import numpy as np
import sympy as sp


class _SafeDiv(sp.Function):
    @classmethod
    def eval(cls, a, b):
        if a.is_number and b.is_number:
            return sp.Integer(0) if b == 0 else a / b


def _indicator(c):
    return sp.Piecewise((1, c), (0, True))


_LOCALS = {'Indicator': _indicator, 'safe_div': _SafeDiv, 're': sp.re, 'im': sp.im, 'real': sp.re, 'imag': sp.im}


class Evaluator:
    def __init__(self, mdl):
        self.mdl = mdl
        self.cache = {}
        names = set(mdl._input.keys()) | set(mdl.cache.all_vars_names) | set(mdl.cache.all_params_names)
        names |= {'dae_t', 'sys_f', 'sys_mva'}
        self.syms = {n: sp.Symbol(n) for n in names}
        # SubsService: a name standing for an expression
        self.subs = {}
        for n, s in mdl.services_subs.items():
            try:
                self.subs[self.syms.setdefault(n, sp.Symbol(n))] = self.parse(s.v_str, raw=True)
            except Exception:
                pass

    def parse(self, s, raw=False):
        key = (s, raw)
        if key not in self.cache:
            loc = dict(self.syms)
            loc.update(_LOCALS)
            e = sp.sympify(s, locals=loc)
            if not raw:
                for _ in range(4):
                    if not (e.free_symbols & set(self.subs)):
                        break
                    e = e.xreplace(self.subs)
            self.cache[key] = e
        return self.cache[key]

    def value(self, s, env):
        """env: name -> python number for one device.  Returns complex or None."""
        try:
            e = self.parse(s)
            fs = e.free_symbols
            rep = {}
            for sym in fs:
                if sym.name not in env:
                    return None
                val = env[sym.name]
                rep[sym] = sp.Float(val.real, 17) + sp.I * sp.Float(val.imag, 17) if isinstance(val, complex) and val.imag != 0 \
                    else sp.Float(float(val.real if isinstance(val, complex) else val), 17)
            r = e.xreplace(rep)
            r = complex(r.evalf(17))
            if not (np.isfinite(r.real) and np.isfinite(r.imag)):
                return None
            return r
        except Exception:
            return None


def _env(mdl, i):
    env = {}
    for k, arr in mdl._input.items():
        try:
            a = np.asarray(arr)
            if a.ndim == 0:
                x = a.item()
            elif a.ndim == 1 and a.shape[0] == mdl.n:
                x = a[i].item()
            else:
                continue
            if isinstance(x, (bool, np.bool_)):
                x = float(x)
            if isinstance(x, (int, float, complex)):
                env[k] = x
        except Exception:
            continue
    return env


def _cmp(got, exp):
    got = complex(got)
    return abs(got - exp) / (1.0 + abs(exp))


def check_model(mdl, rng, max_devices=3, what=('sv', 'fg', 'init', 's')):
    """Returns dict(worst, detail, compared, skipped).  Mutates the model's values (throw-away system)."""
    out = {'worst': 0.0, 'detail': None, 'compared': 0, 'skipped': 0}
    if mdl.n == 0:
        return out
    mdl.get_inputs(refresh=True)
    mdl.refresh_inputs_arg()
    ev = Evaluator(mdl)
    devs = list(range(mdl.n))
    if len(devs) > max_devices:
        devs = sorted(rng.sample(devs, max_devices))

    def judge(kind, name, string, got_arr, i, env):
        try:
            got = np.asarray(got_arr)
            got = got[i] if got.ndim else got
        except Exception:
            out['skipped'] += 1
            return
        exp = ev.value(string, env)
        if exp is None or not np.isfinite(complex(got).real):
            out['skipped'] += 1
            return
        d = _cmp(got, exp)
        out['compared'] += 1
        if d > out['worst']:
            out['worst'] = float(d)
            out['detail'] = '%s %s.%s[%d]: loaded code gives %r, declared string %r evaluates to %r' % (
                kind, mdl.class_name, name, i, complex(got) if isinstance(got, complex) else float(np.real(got)), string[:160], exp)

    # ---- move the variables off the initialised point (same inputs for both evaluations)
    for var in mdl.cache.all_vars.values():
        try:
            v = np.asarray(var.v, dtype=float)
            var.v[:] = v * (1.0 + 0.05 * np.array([rng.uniform(-1, 1) for _ in range(len(v))])) + \
                0.01 * np.array([rng.uniform(-1, 1) for _ in range(len(v))])
        except Exception:
            pass

    # ---- variable services
    if 'sv' in what and len(mdl.services_var):
        try:
            mdl.s_update_var()
            mdl.get_inputs(refresh=True)
            for i in devs:
                env = _env(mdl, i)
                for name, s in mdl.services_var.items():
                    if s.v_str is None or s.v_numeric is not None or len(np.atleast_1d(s.v)) != mdl.n:
                        continue
                    e2 = dict(env)
                    e2.pop(name, None)
                    judge('VarService', name, s.v_str, s.v, i, e2)
        except Exception as e:
            out['error'] = 's_update_var: %r' % (e,)
            return out

    # ---- residuals
    uniform = all(len(np.atleast_1d(var.v)) == mdl.n for var in mdl.cache.all_vars.values())
    if not uniform:
        out['skipped'] += 1          # e.g. COI: variables sized by the number of linked devices
        return out
    if 'fg' in what and uniform:
        num = mdl.flags.f_num or mdl.flags.g_num or any(b.flags.f_num or b.flags.g_num for b in mdl.blocks.values())
        try:
            mdl.get_inputs(refresh=True)
            mdl.refresh_inputs_arg()
            pairs = []
            if not num:
                for var in mdl.cache.all_vars.values():
                    try:
                        var.e[:] = 0
                    except Exception:
                        pass
                mdl.f_update()
                mdl.g_update()
                for name, var in mdl.cache.all_vars.items():
                    if var.e_str is not None and len(np.atleast_1d(var.e)) == mdl.n:
                        pairs.append((name, var.e_str, np.array(var.e, dtype=float)))
            else:
                if callable(mdl.calls.f):
                    ret = mdl.calls.f(*mdl.f_args)
                    for k, (name, var) in enumerate(mdl.cache.states_and_ext.items()):
                        if var.e_str is not None:
                            pairs.append((name, var.e_str, np.broadcast_to(np.asarray(ret[k], dtype=float), (mdl.n,))
                                          if np.ndim(ret[k]) == 0 or np.shape(ret[k])[0] == mdl.n else None))
                if callable(mdl.calls.g):
                    ret = mdl.calls.g(*mdl.g_args)
                    for k, (name, var) in enumerate(mdl.cache.algebs_and_ext.items()):
                        if var.e_str is not None:
                            pairs.append((name, var.e_str, np.broadcast_to(np.asarray(ret[k], dtype=float), (mdl.n,))
                                          if np.ndim(ret[k]) == 0 or np.shape(ret[k])[0] == mdl.n else None))
            for i in devs:
                env = _env(mdl, i)
                for name, string, arr in pairs:
                    if arr is None:
                        out['skipped'] += 1
                        continue
                    judge('residual', name, string, arr, i, env)
        except Exception as e:
            out['error'] = 'f/g update: %r' % (e,)
            return out

    # ---- explicit initialisation assignments (stored call, stored argument list)
    if 'init' in what:
        try:
            mdl.get_inputs(refresh=True)
            mdl.refresh_inputs_arg()
            for name, var in mdl.cache.all_vars.items():
                fn = mdl.calls.ia.get(name) if hasattr(mdl.calls, 'ia') else None
                if fn is None or var.v_str is None or not callable(fn) or len(np.atleast_1d(var.v)) != mdl.n:
                    continue
                ret = fn(*mdl.ia_args[name])
                ret = np.broadcast_to(np.asarray(ret), (mdl.n,)) if np.ndim(ret) == 0 else np.asarray(ret)
                if ret.shape[0] != mdl.n:
                    continue
                for i in devs:
                    judge('init', name, var.v_str, ret, i, _env(mdl, i))
        except Exception as e:
            out['error'] = 'init call: %r' % (e,)
            return out

    # ---- constant services (two passes: a service may read a service declared later)
    if 's' in what and len(mdl.services):
        try:
            mdl.s_update()
            mdl.s_update()
            mdl.get_inputs(refresh=True)
            for i in devs:
                env = _env(mdl, i)
                for name, s in mdl.services.items():
                    if getattr(s, 'v_str', None) is None or getattr(s, 'v_numeric', None) is not None:
                        continue
                    if name in mdl.services_var or name in mdl.services_subs or name in getattr(mdl, 'services_post', {}):
                        continue
                    if type(s).__name__ not in ('ConstService',):
                        continue
                    if len(np.atleast_1d(s.v)) != mdl.n:
                        continue
                    e2 = dict(env)
                    e2.pop(name, None)
                    judge('ConstService', name, s.v_str, s.v, i, e2)
        except Exception as e:
            out['error'] = 's_update: %r' % (e,)
            return out
    return out


def check_system(ss, rng, max_devices=3, models=None):
    res = {}
    for name, mdl in ss.models.items():
        if mdl.n == 0 or (models is not None and name not in models):
            continue
        if not (mdl.flags.pflow or mdl.flags.tds):
            continue
        try:
            res[name] = check_model(mdl, rng, max_devices=max_devices)
            res[name]['md5_ok'] = getattr(mdl.calls, 'md5', None) == mdl.get_md5()
        except Exception as e:
            import traceback
            res[name] = {'error': 'checker: %r | %s' % (e, traceback.format_exc()[-300:]), 'checker_error': True}
    return res
