"""
Seams owned by the simulator.  Everything is installed as an *instance* attribute (or a module attribute
inside a context manager) on the objects of one System, so the shipped code is untouched.

StepTap      wraps TDS.itm_step: one ATTEMPT record per attempted step (accepted or rejected), copies of
             x/y/f before and after, online oracles "rejection is a no-op", step-size envelope.
SolverTap    wraps routine.solver.solve/linsolve: per Newton iteration record, rule mirror (C04), solver
             fault injection (reject_step, nan, stale_symbolic, garbage), pattern constancy (C16).
TimerTap     wraps every TimerParam.callback: firing log with whole-system status diff.
StoreTap     wraps dae.store: rows as stored.
ConnTap      wraps System.connectivity: island partition after every call.
SimClock     replaces the ``time`` module attribute of andes.routines.tds (qrt).
SimCrash     raised from a seam to discard the object graph.
"""

import numpy as np

from dst.world import all_status, diff_snap


class SimCrash(BaseException):
    """Process crash injected by the simulator (BaseException: must not be swallowed by `except Exception`)."""


class Seq:
    """Global event sequence number of one run (not simulated time, which ties at t +- eps)."""

    def __init__(self):
        self.n = 0

    def __call__(self):
        self.n += 1
        return self.n


def independent_tf(ss):
    """Mass-matrix diagonal rebuilt from each State's t_const parameter (not from dae.Tf)."""
    tf = np.ones(ss.dae.n)
    for mdl in ss.exist.pflow_tds.values() if ss.TDS.initialized else ss.exist.pflow.values():
        if not mdl.n:
            continue
        for var in mdl.cache.states_and_ext.values():
            if var.t_const is not None and len(var.a):
                tf[var.a] = np.asarray(var.t_const.v, dtype=float)
    return tf


def discrete_flags(ss):
    """All exported discrete flags of all models in use, as one float array (order is model/declaration order)."""
    parts = []
    for mdl in ss.exist.pflow_tds.values():
        if not mdl.n:
            continue
        for d in mdl.discrete.values():
            for v in d.get_values():
                parts.append(np.ravel(np.asarray(v, dtype=float)))
    return np.concatenate(parts) if parts else np.zeros(0)


class StepTap:
    def __init__(self, ss, seq, hist, keep_arrays=True):
        self.ss, self.seq, self.hist = ss, seq, hist
        self.tds = ss.TDS
        self.orig = ss.TDS.itm_step
        self.cur = None
        self.keep = keep_arrays
        self.attempt_no = hist.setdefault('n_attempts', 0)
        ss.TDS.itm_step = self

    def remove(self):
        try:
            del self.ss.TDS.__dict__['itm_step']
        except KeyError:
            pass

    def __call__(self):
        tds, dae = self.tds, self.ss.dae
        rec = {'seq': self.seq(), 'k': self.hist['n_attempts'], 't': float(dae.t), 'h': float(tds.h),
               'x0': dae.x.copy(), 'y0': dae.y.copy(), 'f0': dae.f.copy(), 'iters': 0,
               'mirror_err': 0.0, 'accept_err': None, 'last_inc': None, 'resumed': self.hist.get('segment', 0) > 0,
               # mass-matrix diagonal in force for this attempt, rebuilt from the models' time-constant parameters
               # (they may have been altered since the previous attempt: Model.alter between segments, timed Alter devices)
               'tf': independent_tf(self.ss)}
        self.hist['n_attempts'] += 1
        self.cur = rec
        ok = self.orig()
        self.cur = None
        rec['converged'] = bool(ok)
        rec['niter'] = int(tds.niter)
        rec['chatter'] = bool(tds.chatter)
        rec['busted'] = bool(tds.busted)
        rec['x1'] = dae.x.copy()
        rec['y1'] = dae.y.copy()
        rec['f1'] = dae.f.copy()
        rec['z'] = discrete_flags(self.ss)
        if not ok:
            # rejection must be a no-op on x, y, f
            same = (np.array_equal(rec['x1'], rec['x0']) and np.array_equal(rec['y1'], rec['y0'])
                    and np.array_equal(rec['f1'], rec['f0']))
            rec['reject_noop'] = bool(same)
        self.hist['attempts'].append(rec)
        return ok


class SolverTap:
    """
    Wraps ``routine.solver`` (a Solver instance: already an injected, interchangeable back-end).

    faults: dict attempt_index -> kind, kinds:
      'reject'   every iteration of that attempt gets a bounded wrong increment -> Newton exhausts max_iter
      'nan'      NaN vector (what the wrappers return for a singular matrix)
      'stale'    worker._numeric raises ValueError once (stale symbolic factor) -> refactor path
    """

    def __init__(self, ss, routine, seq, hist, steptap=None, faults=None, check_mirror=True):
        self.ss, self.routine, self.seq, self.hist = ss, routine, seq, hist
        self.solver = routine.solver
        self.steptap = steptap
        self.faults = dict(faults or {})
        self.fired = hist.setdefault('faults_fired', {})
        self.check_mirror = check_mirror
        self.check_axb = True
        self.tf_ind = None
        self.pattern = None
        self._orig_solve = self.solver.solve
        self._orig_linsolve = self.solver.linsolve
        self.solver.solve = self._solve
        self.solver.linsolve = self._linsolve
        self._stale_armed = False
        self._orig_numeric = None

    def remove(self):
        for k in ('solve', 'linsolve'):
            self.solver.__dict__.pop(k, None)
        self._unstale()

    # -- fault helpers
    def _fire(self, kind):
        self.fired[kind] = self.fired.get(kind, 0) + 1

    def _unstale(self):
        if self._orig_numeric is not None:
            self.solver.worker.__dict__.pop('_numeric', None)
            self._orig_numeric = None

    def _arm_stale(self):
        w = self.solver.worker
        if not hasattr(w, '_numeric'):
            return False
        tap = self
        orig = w._numeric
        self._orig_numeric = orig

        def numeric_once(A, F):
            tap._unstale()
            tap._fire('stale_symbolic')
            raise ValueError('injected: stale symbolic factorisation')
        w._numeric = numeric_once
        return True

    # -- the rule mirror: recompute the integration-rule residual from the simulator's own copies
    def _mirror(self, b, rec):
        tds, dae = self.ss.TDS, self.ss.dae
        self.tf_ind = rec['tf'] if rec.get('tf') is not None and len(rec['tf']) == dae.n else independent_tf(self.ss)
        h = rec['h']
        name = tds.config.method
        if name == 'trapezoid':
            q = self.tf_ind * (dae.x - rec['x0']) - h * 0.5 * (dae.f + rec['f0'])
        else:
            q = self.tf_ind * (dae.x - rec['x0']) - h * dae.f
        for item in self.ss.antiwindups:
            for key, _, eqval in item.x_set:
                np.put(q, key, eqval)
        gs = tds.config.g_scale
        g = gs * h * dae.g if gs > 0 else dae.g
        ref = np.concatenate([q, g])
        bb = np.ravel(np.array(b, dtype=float))
        if bb.shape != ref.shape:
            return float('inf')
        scale = max(1.0, float(np.max(np.abs(ref))) if ref.size else 1.0)
        return float(np.max(np.abs(bb - ref)) / scale) if ref.size else 0.0

    def _inside(self, A, b, call):
        rec = self.steptap.cur if self.steptap is not None else None
        if rec is None:
            return call(A, b)
        rec['iters'] += 1
        k = rec['k']
        dae = self.ss.dae
        held = rec.setdefault('held', set())
        last = set()
        for item in self.ss.antiwindups:
            for key, _, _ in item.x_set:
                last.update(np.atleast_1d(key).tolist())
        held.update(last)
        rec['held_last'] = last
        if rec['iters'] == 1:
            rec['f_first'] = dae.f.copy()
            rec['g_first'] = dae.g.copy()
        if self.check_mirror:
            e = self._mirror(b, rec)
            if e > rec['mirror_err']:
                rec['mirror_err'] = e
        kind = self.faults.get(k)
        if kind == 'stale' and not rec.get('_stale_done'):
            rec['_stale_done'] = True
            if self._arm_stale():
                pass
        b_in = np.ravel(np.array(b, dtype=float)).copy() if self.check_axb else None
        inc = call(A, b)
        if self.check_axb and kind not in ('reject', 'nan'):
            # the vector returned for this iteration must solve the matrix handed over in this iteration: a caching back-end
            # that was not asked to refactorise after the matrix changed returns the solution of an older matrix
            from kvxopt import matrix as _m
            x = np.ravel(np.array(inc, dtype=float))
            if np.all(np.isfinite(x)) and x.shape == b_in.shape:
                r = np.ravel(np.array(A * _m(x))) - b_in
                # normwise backward error |Ax - b| / (|b| + |A| |x|): what a backward-stable solver keeps at rounding level also for an
                # ill-conditioned matrix (a residual relative to |b| alone grows with the condition number)
                try:
                    rows = np.bincount(np.ravel(np.array(A.I)).astype(int), weights=np.abs(np.ravel(np.array(A.V, dtype=float))),
                                       minlength=len(x))
                    norm_a = float(np.max(rows)) if rows.size else 0.0
                except Exception:
                    norm_a = 0.0
                scale = float(np.max(np.abs(b_in))) + norm_a * float(np.max(np.abs(x))) + 1e-300
                e = float(np.max(np.abs(r))) / scale if scale > 1e-14 else 0.0
                if e > rec.get('axb_err', 0.0):
                    rec['axb_err'] = e
        if kind == 'reject':
            if rec['iters'] == 1:
                self._fire('reject_step')
            bad = np.zeros(len(inc))
            j = k % max(1, len(inc))
            bad[j] = 3.0 * max(self.ss.TDS.config.tol, 1e-12) * (1.0 + 0.05 * rec['iters'])
            rec['forced_reject'] = True
            return bad
        if kind == 'nan':
            self._fire('nan')
            rec['forced_nan'] = True
            return np.full(len(inc), np.nan)
        rec['last_inc'] = np.array(inc, dtype=float).copy()
        rec['x_eval'] = self.ss.dae.x.copy()
        rec['y_eval'] = self.ss.dae.y.copy()
        return inc

    def _solve(self, A, b):
        return self._inside(A, b, self._orig_solve)

    def _linsolve(self, A, b):
        return self._inside(A, b, self._orig_linsolve)


class TimerTap:
    """Wrap every TimerParam.callback of every timed-event model and log firings with a whole-system diff."""

    def __init__(self, ss, seq, hist):
        self.ss, self.seq, self.hist = ss, seq, hist
        self.wrapped = []
        log = hist.setdefault('timer_log', [])
        for grp in ('TimedEvent',):
            for mdl in ss.groups[grp].models.values():
                if not mdl.n:
                    continue
                for tname, tp in mdl.timer_params.items():
                    if tp.callback is None:
                        continue
                    self._wrap(mdl, tname, tp, log)

    def _wrap(self, mdl, tname, tp, log):
        ss, seq = self.ss, self.seq
        orig = tp.callback

        def cb(is_time):
            flags = np.array(is_time, dtype=bool).copy()
            before = all_status(ss) if flags.any() else None
            ret = orig(is_time)
            if flags.any():
                after = all_status(ss)
                changed = diff_snap(before, after)
                for i in np.where(flags)[0]:
                    log.append({'seq': seq(), 't': float(ss.dae.t), 'model': mdl.class_name, 'timer': tname,
                                'i': int(i), 'idx': str(mdl.idx.v[i]), 'enabled': float(mdl.u.v[i]),
                                'ret': bool(ret), 'changed': changed})
            return ret
        tp.callback = cb
        self.wrapped.append((tp, orig))

    def remove(self):
        for tp, orig in self.wrapped:
            tp.callback = orig
        self.wrapped = []


class StoreTap:
    def __init__(self, ss, seq, hist):
        self.ss = ss
        self.orig = ss.dae.store
        log = hist.setdefault('store_log', [])
        dae = ss.dae

        def store():
            log.append({'seq': seq(), 't': float(dae.t), 'x': dae.x.copy(), 'y': dae.y.copy(),
                        'kcount': int(dae.kcount)})
            return self.orig()
        ss.dae.store = store

    def remove(self):
        self.ss.dae.__dict__.pop('store', None)


class ConnTap:
    def __init__(self, ss, seq, hist):
        self.ss = ss
        self.orig = ss.connectivity
        log = hist.setdefault('conn_log', [])

        def connectivity(info=True):
            ret = self.orig(info=info)
            log.append({'seq': seq(), 't': float(ss.dae.t),
                        'islands': sorted(sorted(int(b) for b in isl) for isl in ss.Bus.islands),
                        'islanded': sorted(int(b) for b in ss.Bus.islanded_buses),
                        'nosw': sorted(int(i) for i in ss.Bus.nosw_island),
                        'msw': sorted(int(i) for i in ss.Bus.msw_island),
                        'island_sets': [sorted(int(b) for b in s) for s in ss.Bus.island_sets],
                        'line_u': np.array(ss.Line.u.v, dtype=float).copy(),
                        # addresses whose residual / Jacobian rows are neutralised for isolated buses
                        'neutral_a': sorted(int(k) for k in np.ravel(getattr(ss.Bus, 'islanded_a', []))),
                        'neutral_v': sorted(int(k) for k in np.ravel(getattr(ss.Bus, 'islanded_v', []))),
                        'bus_a': [int(k) for k in ss.Bus.a.a], 'bus_v': [int(k) for k in ss.Bus.v.a],
                        })
            return ret
        ss.connectivity = connectivity

    def remove(self):
        self.ss.__dict__.pop('connectivity', None)


class SimClock:
    """
    Stand-in for the ``time`` module inside andes.routines.tds: simulated wall clock.
    mode: steady (1:1 with sleeps), fast (never waits), slow (every read costs), jumpy (seeded jumps both ways),
    stalled (time() frozen; sleep still advances so qrt loops terminate).
    """

    def __init__(self, rng, mode='steady'):
        self.now = 1.7e9
        self.rng = rng
        self.mode = mode
        self.sleeps = 0
        self.reads = 0
        self.jumps = 0

    def time(self):
        self.reads += 1
        if self.mode == 'slow':
            self.now += 0.02
        elif self.mode == 'jumpy' and self.rng.random() < 0.02:
            self.now += self.rng.choice([-5.0, -0.5, 0.5, 5.0, 3600.0])
            self.jumps += 1
        return self.now

    def sleep(self, s):
        self.sleeps += 1
        self.now += max(s, 1e-4)
        if self.sleeps > 2_000_000:
            raise RuntimeError('SimClock: qrt wait does not terminate')

    def perf_counter(self):
        return self.time()

    def __getattr__(self, name):
        import time as _t
        return getattr(_t, name)
