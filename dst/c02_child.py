"""
Child of the C02 codegen-store scenarios: runs in a fresh interpreter with HOME pointing to a private copy of the
generated-code store.  argv[1] = JSON {"edit": null | {"model","var","expr"}, "ops": [...], "seed": n}.
Prints one JSON line "RESULT {...}".

ops (executed in order inside this interpreter):
  new_system          andes.System() (undill: load, stale detection, regeneration)
  eval                evaluate the loaded residual functions of the probe models on seeded values through the model's own
                      name-based argument binding, and compare with an independent sympy evaluation of the *declared* strings
  prepare_full / prepare_incremental
  pool_crash:k        replace andes.system.Pool by an in-process pool that completes k tasks (seeded order) and then dies
  hash                sha256 of every file of the store
  edit_live           change an equation string of a model of the live System made by new_system (spec["live_edit"])
  prepare_live        System.prepare(quick, incremental, nomp) on that same instance
"""

import hashlib
import json
import logging
import os
import random
import sys

logging.disable(logging.CRITICAL)

spec = json.loads(sys.argv[1])
rng = random.Random(spec.get('seed', 0))
out = {'steps': []}

import numpy as np  # noqa
import sympy as sp  # noqa
import andes  # noqa
import andes.system as asys  # noqa

PROBES = {'Shunt': ['a', 'v'], 'PQ': ['a', 'v'], 'Line': ['a1', 'v1', 'a2', 'v2'], 'GENCLS': ['delta', 'omega']}

# ---- model edit (the "program changes" fault): patched before any System is built in this interpreter
edit = spec.get('edit')
if edit:
    import importlib
    modname = {'Shunt': 'andes.models.shunt.shunt', 'PQ': 'andes.models.static.pq'}[edit['model']]
    mod = importlib.import_module(modname)
    cls = getattr(mod, edit['model'])
    orig_init = cls.__init__

    def patched(self, system, config, _orig=orig_init, _e=edit):
        _orig(self, system, config)
        var = self.__dict__[_e['var']]
        var.e_str = _e['expr'].replace('$', var.e_str)
    cls.__init__ = patched


def store_dir():
    return os.path.join(os.path.expanduser('~'), '.andes', 'pycode')


def sym_eval(expr_str, names):
    """Independent evaluation: sympy parse by symbol name, substitute name -> value, evalf.  No lambdify, no argument order."""
    loc = {n: sp.Symbol(n) for n in names}
    loc.update({'Indicator': lambda c: sp.Piecewise((1, c), (0, True)), 're': sp.re, 'im': sp.im})
    e = sp.sympify(expr_str, locals=loc)
    return float(e.xreplace({sp.Symbol(k): sp.Float(v) for k, v in names.items()}).evalf())


def eval_models(ss):
    """Compare loaded code with declared strings for the probe models at seeded points (device by device)."""
    res = {}
    for mname, vars_ in PROBES.items():
        mdl = ss.models[mname]
        if mdl.n == 0:
            continue
        mdl.get_inputs(refresh=True)
        mdl.refresh_inputs_arg()
        # seeded values for every variable the model reads
        for vn, var in mdl.cache.all_vars.items():
            var.v[:] = [rng.uniform(0.5, 1.5) for _ in range(len(var.v))]
        mdl.s_update_var()
        for var in mdl.cache.all_vars.values():
            var.e[:] = 0        # in-place equation values are accumulated (+=): start every evaluation from zero
        try:
            mdl.f_update()
            mdl.g_update()
        except Exception as e:
            import traceback
            res[mname] = {'error': repr(e)[:200] + ' | ' + traceback.format_exc()[-300:]}
            continue
        worst = 0.0
        detail = None
        for vn in vars_:
            var = mdl.__dict__[vn]
            if var.e_str is None:
                continue
            for i in range(mdl.n):
                names = {}
                for pn, p in mdl.params.items():
                    try:
                        names[pn] = float(p.v[i])
                    except (TypeError, ValueError, IndexError):
                        pass
                for sn, s in mdl.services.items():
                    try:
                        names[sn] = float(np.asarray(s.v)[i])
                    except (TypeError, ValueError, IndexError):
                        pass
                for xn, xv in mdl.cache.all_vars.items():
                    names[xn] = float(xv.v[i])
                for dn, d in mdl.discrete.items():
                    for fl, val in zip(d.get_names(), d.get_values()):
                        try:
                            names[fl] = float(np.asarray(val)[i])
                        except (TypeError, ValueError, IndexError):
                            pass
                names['dae_t'] = float(ss.dae.t)
                names.update({k: float(v) for k, v in mdl.config.as_dict().items() if isinstance(v, (int, float))})
                try:
                    exp = sym_eval(var.e_str, names)
                except Exception as e:
                    detail = detail or 'symeval %s.%s: %r' % (mname, vn, repr(e)[:80])
                    continue
                got = float(var.e[i])
                d = abs(got - exp) / (1 + abs(exp))
                if d > worst:
                    worst = d
                    detail = '%s.%s[%d]: loaded code gives %r, declared string %r evaluates to %r' % (mname, vn, i, got, var.e_str, exp)
        res[mname] = {'worst': worst, 'detail': detail, 'md5_ok': getattr(mdl.calls, 'md5', None) == mdl.get_md5()}
    return res


EVAL_CASES = ['ieee14/ieee14_esst1a.xlsx', 'kundur/kundur_full.xlsx', 'ieee14/ieee14_wt3.xlsx', 'ieee39/ieee39_full.xlsx',
              'kundur/kundur_vsc.xlsx', 'ieee14/ieee14_pvd1.xlsx', 'wecc/wecc_full.xlsx', 'npcc/npcc.xlsx', 'kundur/kundur_wtdta1.xlsx',
              'ieee14/ieee14_esd1.xlsx', 'ieee14/ieee14_dgprct1.xlsx', 'kundur/kundur_motor.xlsx', 'kundur/kundur_st2cut.xlsx',
              'ieee14/ieee14_hygov4.xlsx', 'ieee14/ieee14_ac8b.xlsx', 'ieee14/ieee14_esst4b.xlsx', 'ieee14/ieee14_exac1.xlsx',
              'ieee14/ieee14_gast.xlsx', 'ieee14/ieee14_ieeet3.xlsx', 'ieee14/ieee14_plbvfu1.xlsx', 'ieee14/ieee14_pll1.xlsx',
              'ieee14/ieee14_regcp1.xlsx', 'ieee14/ieee14_solar.xlsx', 'ieee14/ieee14_wt3n.xlsx', 'kundur/kundur_esdc2a.xlsx',
              'kundur/kundur_esst3a.xlsx', 'kundur/kundur_exst1.xlsx', 'kundur/kundur_ieeeg1.xlsx', 'kundur/kundur_ieeest.xlsx',
              'kundur/kundur_pmu.xlsx', 'kundur/kundur_reg.xlsx', 'kundur/kundur_sexs.xlsx', 'kundur/kundur_wtds.xlsx',
              'kundur/kundur_freq.xlsx', 'ieee14/ieee14_zip.json', 'ieee14/ieee14_fload.json', 'ieee14/ieee14_ieesgo.xlsx',
              'ieee14/ieee14_ieeevc2.xlsx', 'ieee14/ieee14_hygovdb.xlsx', 'ieee14/ieee14_esac1a.xlsx', 'ieee14/ieee14_esdc1a.xlsx',
              'ieee14/ieee14_exac4.xlsx', 'ieee14/ieee14_ieeet1.xlsx', 'ieee14/ieee14_shuntsw.xlsx', '5bus/pjm5bus.xlsx']


def eval_case(case):
    """Every model in use of a stock case: loaded code against the declared strings (dst.symcheck)."""
    sys.path.insert(0, os.path.dirname(os.path.dirname(os.path.abspath(__file__))))
    from dst import symcheck
    path = os.path.join(os.path.dirname(andes.__file__), 'cases', case)
    cs = andes.load(path, default_config=True, no_output=True)
    cs.PFlow.run()
    cs.TDS.config.no_tqdm = 1
    cs.TDS.init()
    return symcheck.check_system(cs, rng)


def make_system():
    ss = andes.System(default_config=True, no_output=True)
    for k in range(3):
        ss.add('Bus', {'idx': k, 'Vn': 110.0})
    ss.add('Shunt', {'bus': 1, 'g': 0.13, 'b': 0.27, 'Vn': 110.0})
    ss.add('Shunt', {'bus': 2, 'g': 0.02, 'b': -0.4, 'Vn': 110.0})
    ss.add('PQ', {'bus': 2, 'p0': 0.3, 'q0': 0.1, 'Vn': 110.0})
    ss.add('Line', {'bus1': 0, 'bus2': 1, 'r': 0.01, 'x': 0.1, 'b': 0.02, 'Vn1': 110.0, 'Vn2': 110.0, 'tap': 1.02, 'phi': 0.01})
    ss.add('Line', {'bus1': 1, 'bus2': 2, 'r': 0.02, 'x': 0.2, 'b': 0.01, 'Vn1': 110.0, 'Vn2': 110.0})
    ss.add('Slack', {'bus': 0, 'idx': 'S', 'Vn': 110.0})
    ss.add('GENCLS', {'bus': 0, 'gen': 'S', 'M': 6.0, 'D': 1.0, 'xd1': 0.3, 'Vn': 110.0})
    ss.setup()
    ss.PFlow.run()
    ss.TDS.config.no_tqdm = 1
    ss.TDS.init()
    return ss


class SimPool:
    """In-process stand-in for the multiprocessing pool: seeded completion order, dies after k tasks."""

    def __init__(self, k, seed):
        self.k, self.seed = k, seed

    def __call__(self, ncpu):
        return self

    def map(self, fn, items):
        items = list(items)
        random.Random(self.seed).shuffle(items)
        for n, it in enumerate(items):
            if self.k is not None and n >= self.k:
                raise KeyboardInterrupt('simulated crash of the code generation after %d tasks' % n)
            fn(it)


ss = None
for op in spec['ops']:
    step = {'op': op}
    try:
        if op == 'new_system':
            probe = andes.System(default_config=True, no_output=True)
            step['stale_after'] = sorted(probe._find_stale_models().keys())
            ss = make_system()
        elif op == 'eval':
            step['eval'] = eval_models(ss if ss is not None else make_system())
            cases = spec.get('cases')
            if cases is None:
                cases = [EVAL_CASES[rng.randrange(len(EVAL_CASES))]]
            elif cases == 'all':
                cases = list(EVAL_CASES)
            elif isinstance(cases, int):
                cases = rng.sample(EVAL_CASES, cases)
            step['cases'] = cases
            for c in cases:
                for m, r in eval_case(c).items():
                    step['eval']['%s@%s' % (m, c)] = r
        elif op == 'edit_live':
            # the developer changes an equation of a model of the *live* System (after its code was loaded and hashed)
            le = spec['live_edit']
            var = ss.models[le['model']].__dict__[le['var']]
            var.e_str = le['expr'].replace('$', var.e_str)
        elif op == 'prepare_live':
            # ... and asks the same instance to regenerate what is out of date, in this process
            before = {n: getattr(m.calls, 'md5', None) for n, m in ss.models.items()}
            ss.prepare(quick=True, incremental=True, nomp=True)
            step['regenerated'] = sorted(n for n, m in ss.models.items() if getattr(m.calls, 'md5', None) != before[n])
        elif op == 'prepare_full':
            andes.main.prepare(quick=True)
        elif op == 'prepare_incremental':
            andes.main.prepare(quick=True, incremental=True)
        elif op.startswith('pool_crash:'):
            k = int(op.split(':')[1])
            asys.Pool = SimPool(k, spec.get('seed', 0))
            try:
                andes.main.prepare(quick=True)
                step['crashed'] = False
            except KeyboardInterrupt:
                step['crashed'] = True
        elif op == 'pool_order':
            asys.Pool = SimPool(None, spec.get('seed', 0))
            andes.main.prepare(quick=True)
        elif op == 'hash':
            h = {}
            d = store_dir()
            for f in sorted(os.listdir(d)):
                if f.endswith('.py'):
                    with open(os.path.join(d, f), 'rb') as fh:
                        blob = fh.read()
                    if f == '__init__.py':
                        # the package file records andes.__version__, which versioneer derives from the git state of the
                        # checkout (commit count, sha, dirty flag): not part of the generated functions
                        blob = b'\n'.join(ln for ln in blob.split(b'\n') if not ln.startswith(b'__version__'))
                    h[f] = hashlib.sha256(blob).hexdigest()[:16]
            step['hash'] = h
        step['ok'] = True
    except BaseException as e:
        step['ok'] = False
        step['exc'] = '%s: %s' % (type(e).__name__, str(e)[:200])
        out['steps'].append(step)
        break
    out['steps'].append(step)

print('RESULT ' + json.dumps(out))
