"""Union-find reference for island detection: components of in-service series edges, degree-0 nodes, slack counts."""


def components(n, edges):
    """edges: iterable of (i, j, in_service). Returns (isolated sorted list, sorted list of sorted components with >= 1 edge)."""
    parent = list(range(n))

    def find(a):
        while parent[a] != a:
            parent[a] = parent[parent[a]]
            a = parent[a]
        return a

    deg = [0] * n
    for i, j, u in edges:
        if not u:
            continue
        deg[i] += 1
        deg[j] += 1
        ri, rj = find(i), find(j)
        if ri != rj:
            parent[ri] = rj
    isolated = [k for k in range(n) if deg[k] == 0]
    comps = {}
    for k in range(n):
        if deg[k] == 0:
            continue
        comps.setdefault(find(k), []).append(k)
    return isolated, sorted(sorted(c) for c in comps.values())


def slack_classes(comps, slack_buses):
    """slack_buses: list of (bus uid, enabled). Returns (indices of components without, with several enabled slacks)."""
    nosw, msw = [], []
    for ci, c in enumerate(comps):
        cs = set(c)
        k = sum(1 for b, u in slack_buses if u == 1 and b in cs)
        if k == 0:
            nosw.append(ci)
        elif k > 1:
            msw.append(ci)
    return nosw, msw
