"""
Textbook reference models of the history-dependent discrete components, fed the same (time, input) call
sequence as the real component -- including repeated stamps (Newton iterations at one time), irregular
advances and rewinds (a rejected step retried with a smaller step).

Time bookkeeping shared by all: the history is the list of *distinct accepted stamps*; a call with the same
stamp as the last one overwrites its value; a call with a smaller stamp than the last one is a rewind: the
last (tentative) entry is replaced by the new (time, value).
"""

import numpy as np


class Hist:
    def __init__(self):
        self.t = []
        self.u = []
        self.rewound = False

    def feed(self, t, u):
        self.rewound = False
        u = np.array(u, dtype=float).copy()
        if not self.t or t == 0:
            if t == 0:
                self.t, self.u = [0.0], [u]
            else:
                self.t.append(t)
                self.u.append(u)
        elif t > self.t[-1]:
            self.t.append(t)
            self.u.append(u)
        elif t == self.t[-1]:
            self.u[-1] = u
        else:
            self.rewound = True
            self.t[-1] = t
            self.u[-1] = u


class DelayStep:
    """Output = input of `delay` distinct stamps ago; before that the initial input."""

    def __init__(self, delay):
        self.d = delay
        self.h = Hist()

    def feed(self, t, u):
        self.h.feed(t, u)
        k = len(self.h.t) - 1 - self.d
        return self.h.u[max(k, 0)]


class DelayTime:
    """Output = linear interpolation of the input history at t - delay; before `delay` has elapsed the initial input."""

    def __init__(self, delay):
        self.tau = delay
        self.h = Hist()

    def feed(self, t, u):
        self.h.feed(t, u)
        ts = np.array(self.h.t)
        tq = t - self.tau
        if tq <= ts[0]:
            return self.h.u[0]
        us = np.array(self.h.u)
        return np.array([np.interp(tq, ts, us[:, j]) for j in range(us.shape[1])])


class AverageStep:
    """Trapezoidal time average of the input over the last `delay` distinct steps."""

    def __init__(self, delay):
        self.d = delay
        self.h = Hist()

    def feed(self, t, u):
        self.h.feed(t, u)
        if t == 0 or len(self.h.t) < 2:
            return self.h.u[-1]
        ts = np.array(self.h.t[-(self.d + 1):])
        us = np.array(self.h.u[-(self.d + 1):])
        if len(ts) < 2:
            return us[-1]
        area = np.sum(0.5 * (us[1:] + us[:-1]) * np.diff(ts)[:, None], axis=0)
        return area / (ts[-1] - ts[0])


class Derivative:
    """Backward difference between the last two distinct stamps; zero at t=0 and right after a rewind; |v|<1e-8 -> 0."""

    def __init__(self):
        self.h = Hist()

    def feed(self, t, u):
        self.h.feed(t, u)
        if t == 0 or self.h.rewound or len(self.h.t) < 2:
            return np.zeros_like(self.h.u[-1])
        v = (self.h.u[-1] - self.h.u[-2]) / (self.h.t[-1] - self.h.t[-2])
        v[np.abs(v) < 1e-8] = 0
        return v


def limiter_flags(u, lower, upper, equal=True, no_lower=False, no_upper=False, sign_lower=1, sign_upper=1):
    """Reference comparison of the input against the limits."""
    u = np.asarray(u, dtype=float)
    lo = -np.asarray(lower, dtype=float) if sign_lower == -1 else np.asarray(lower, dtype=float)
    up = -np.asarray(upper, dtype=float) if sign_upper == -1 else np.asarray(upper, dtype=float)
    if no_upper:
        zu = np.zeros_like(u)
    else:
        zu = (u >= up) if equal else (u > up)
    if no_lower:
        zl = np.zeros_like(u)
    else:
        zl = (u <= lo) if equal else (u < lo)
    zu = zu.astype(float)
    zl = zl.astype(float)
    if not (no_lower or no_upper):
        zl = zl * (1.0 - zu)        # coinciding limits: the upper flag takes precedence, flags stay one-hot
    zi = 1.0 - np.clip(zu + zl, 0, 1)
    return zi, zl, zu
