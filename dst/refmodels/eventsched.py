"""
Executable reference model of the timed-event schedule.

Knows nothing about switch_times, eps neighbours or _switch_idx.  Input: the event devices as *data*
(kind, enabled flag, times, target), t0 and the end time reached.  Output: the expected firing multiset,
the piecewise-constant status of every target as a function of time, and the required grid points.
"""


def normalise_events(ss):
    """Read the event devices of a System as plain data (input values)."""
    ev = []
    for name, mdl in ss.TimedEvent.models.items():
        for i in range(mdl.n):
            d = {'kind': name, 'i': i, 'idx': str(mdl.idx.v[i]), 'u': float(mdl.u.v[i]), 'timers': {}}
            for tname, tp in mdl.timer_params.items():
                d['timers'][tname] = float(tp.v[i])
            if name == 'Toggle':
                d['target'] = (str(mdl.model.v[i]), mdl.dev.v[i])
            elif name == 'Alter':
                d['target'] = (str(mdl.model.v[i]), mdl.dev.v[i], str(mdl.src.v[i]), str(mdl.attr.v[i]))
                d['method'] = str(mdl.method.v[i])
                d['amount'] = float(mdl.amount.v[i])
                d['rand'] = float(mdl.rand.v[i])
            elif name == 'Fault':
                d['target'] = ('Bus', mdl.bus.v[i])
            ev.append(d)
    return ev


def expected_firings(events, t0, t_end):
    """
    Every enabled timer with t0 <= t <= t_end fires exactly once, at exactly t.
    Returns list of (kind, timer, idx, t) sorted by time.
    """
    out = []
    for e in events:
        if e['u'] != 1:
            continue
        for tname, t in e['timers'].items():
            if t0 <= t <= t_end:
                out.append((e['kind'], tname, e['idx'], t))
    out.sort(key=lambda r: (r[3], r[0], r[1], r[2]))
    return out


def required_grid(events, t0, t_end):
    """Event times (enabled timers) that must appear as stored time stamps."""
    return sorted({t for (_, _, _, t) in expected_firings(events, t0, t_end) if t > t0})


def fired_before(events, T, t0):
    """Events (kind, timer, idx, t) that must have acted strictly before a step that ends at T is computed."""
    return [f for f in expected_firings(events, t0, float('inf')) if f[3] < T]


def toggle_parity(events, T, t0):
    """dict target -> number of enabled Toggle firings with t0 < t < T (status = input status flipped parity times)."""
    par = {}
    for e in events:
        if e['kind'] != 'Toggle' or e['u'] != 1:
            continue
        t = e['timers']['t']
        if t0 < t < T:
            par[e['target']] = par.get(e['target'], 0) + 1
    return par


def fault_active(events, T, t0):
    """dict fault idx -> expected uf (1 while tf < T and not yet cleared)."""
    out = {}
    for e in events:
        if e['kind'] != 'Fault':
            continue
        uf = 0
        if e['u'] == 1:
            tf, tc = e['timers'].get('tf', -1), e['timers'].get('tc', -1)
            acts = []
            if t0 <= tf < T:
                acts.append((tf, 0, 1))
            if t0 <= tc < T:
                acts.append((tc, 1, 0))
            # ANDES dispatches tf's callback before tc's at coincident times (declaration order)
            for _, _, val in sorted(acts):
                uf = val
        out[e['idx']] = uf
    return out


def alter_apply(method, v0, amount):
    if method == '+':
        return v0 + amount
    if method == '-':
        return v0 - amount
    if method == '*':
        return v0 * amount
    if method == '/':
        return v0 / amount
    if method == '=':
        return amount
    return None
