"""
Reference check of variable addressing (C10): slot-ownership bijection, slot names, unique-sentinel aliasing
through model / group / global vector / external links.  Independent device lookup: linear scan of idx lists.
"""

import numpy as np

from dst.tdssim import V


def label(model_name, idx):
    if isinstance(idx, str) and model_name in idx:
        out = idx
    else:
        out = '%s %s' % (model_name, idx)
    return out.replace('_', ' ')


def find_device(ss, target, idx):
    """(model, uid) of the device `idx` in model or group `target`, by scanning idx lists; None if absent."""
    if target in ss.models:
        models = [ss.models[target]]
    elif target in ss.groups:
        models = list(ss.groups[target].models.values())
    else:
        return None
    for mdl in models:
        for k, i in enumerate(mdl.idx.v):
            if i == idx and type(i) is type(idx) or (i == idx and not isinstance(i, str) and not isinstance(idx, str)):
                return mdl, k
    return None


def addressed_models(ss):
    return [m for m in ss.models.values() if m.n and m.flags.address]


def check(ss, phase, probes=None, full=True):
    """Return a list of violations for the current addressing state of `ss`."""
    out = []
    probes = probes if probes is not None else {}
    dae = ss.dae
    own = {'x': {}, 'y': {}}
    models = addressed_models(ss)

    def bad(oracle, detail, **sig):
        out.append(V(oracle, '[%s] %s' % (phase, detail), phase=phase, **sig))

    # ---- ownership bijection of internal variables
    for mdl in models:
        for name, var in list(mdl.states.items()) + list(mdl.algebs.items()):
            code = var.v_code
            a = np.asarray(var.a)
            if len(a) != mdl.n:
                bad('ownership', '%s.%s has %d addresses for %d devices' % (mdl.class_name, name, len(a), mdl.n), what='count')
                return out
            for i, slot in enumerate(a.tolist()):
                if slot in own[code]:
                    o = own[code][slot]
                    bad('ownership', 'slot %s[%d] owned by both %s.%s[%d] and %s.%s[%d]' %
                        (code, slot, o[0], o[1], o[2], mdl.class_name, name, i), what='shared')
                    return out
                own[code][slot] = (mdl.class_name, name, i)
    for code, size in (('x', dae.n), ('y', dae.m)):
        slots = sorted(own[code])
        if slots != list(range(size)):
            missing = sorted(set(range(size)) - set(slots))[:5]
            extra = [s for s in slots if s >= size or s < 0][:5]
            bad('ownership', '%s: %d slots, %d owned; unowned %s, out of range %s' % (code, size, len(slots), missing, extra), what='coverage')
            return out
    probes['slots_checked'] = probes.get('slots_checked', 0) + dae.n + dae.m
    # ---- names
    for code, names in (('x', dae.x_name), ('y', dae.y_name)):
        if len(names) < len(own[code]):
            bad('names', '%s_name has %d entries for %d slots' % (code, len(names), len(own[code])), what='length')
            return out
        for slot, (mname, vname, i) in own[code].items():
            mdl = ss.models[mname]
            exp = '%s %s' % (vname, label(mname, mdl.idx.v[i]))
            if names[slot] != exp:
                bad('names', '%s_name[%d] is %r, the slot belongs to %r' % (code, slot, names[slot], exp), what='wrong')
                return out
    if not full:
        return out
    # ---- unique sentinels: every read must return the sentinel of the slot the reference says it aliases
    x_keep, y_keep = dae.x.copy(), dae.y.copy()
    model_keep = {}
    try:
        dae.x[:] = np.arange(dae.n) + 0.5
        dae.y[:] = -(np.arange(dae.m) + 0.5)
        ss.vars_to_models()

        def sentinel(code, slot):
            return slot + 0.5 if code == 'x' else -(slot + 0.5)
        for mdl in models:
            for name, var in list(mdl.states.items()) + list(mdl.algebs.items()):
                exp = np.array([sentinel(var.v_code, s) for s in np.asarray(var.a).tolist()])
                if not np.array_equal(np.asarray(var.v, float), exp):
                    bad('alias', '%s.%s reads %s through the model, its slots hold %s' % (mdl.class_name, name, np.asarray(var.v)[:3], exp[:3]),
                        what='internal')
                    return out
                # Model.get and Group.get by idx
                for i in (0, mdl.n - 1):
                    idx = mdl.idx.v[i]
                    try:
                        g1 = mdl.get(src=name, idx=idx, attr='v')
                    except Exception as e:
                        bad('alias', '%s.get(%s, %r) raised %s' % (mdl.class_name, name, idx, type(e).__name__), what='model_get')
                        return out
                    if float(g1) != exp[i]:
                        bad('alias', '%s.get(%s, idx=%r) returns %r, slot holds %r' % (mdl.class_name, name, idx, g1, exp[i]), what='model_get')
                        return out
                    grp = ss.groups[mdl.group]
                    if name in getattr(grp, 'common_vars', []):
                        try:
                            g2 = grp.get(src=name, idx=idx, attr='v')
                        except Exception as e:
                            bad('alias', 'group %s.get(%s, %r) raised %s' % (grp.class_name, name, idx, type(e).__name__), what='group_get')
                            return out
                        if float(g2) != exp[i]:
                            bad('alias', 'group %s.get(%s, idx=%r) returns %r, slot holds %r' % (grp.class_name, name, idx, g2, exp[i]),
                                what='group_get')
                            return out
                # the caller's own idx container, edited in place between two calls (same object, same length): every call must
                # answer for the contents it is given (seeded change C10-group-get-identity-memo)
                if mdl.n >= 2:
                    grp = ss.groups[mdl.group]
                    lst = [mdl.idx.v[0], mdl.idx.v[mdl.n - 1]]
                    want = [exp[0], exp[mdl.n - 1]]
                    for owner, olabel in ((mdl, mdl.class_name), (grp, 'group ' + grp.class_name)):
                        if owner is grp and name not in getattr(grp, 'common_vars', []):
                            continue
                        for rnd in (0, 1):
                            try:
                                got = [float(x) for x in owner.get(src=name, idx=lst, attr='v')]
                            except Exception as e:
                                bad('alias', '%s.get(%s, idx=%r) raised %s' % (olabel, name, lst, type(e).__name__), what='list_get')
                                return out
                            if got != want:
                                bad('alias', '%s.get(%s, idx=%r)%s returns %r, slots hold %r' %
                                    (olabel, name, lst, ' after the list was edited in place' if rnd else '', got, want),
                                    what='list_get_reused' if rnd else 'list_get')
                                return out
                            lst[0], lst[1] = lst[1], lst[0]
                            want = want[::-1]
                        probes['list_get_reused'] = probes.get('list_get_reused', 0) + 1
            probes['reads_checked'] = probes.get('reads_checked', 0) + 1
            # ---- external links follow device indices
            for name, ev in mdl.cache.vars_ext.items():
                if ev.indexer is None or ev.n == 0:
                    continue
                iv = ev.indexer.v
                if len(iv) and isinstance(iv[0], (list, np.ndarray)):
                    continue
                if len(ev.a) != len(iv):
                    continue
                for i, tidx in enumerate(iv):
                    if tidx is None or (isinstance(tidx, float) and np.isnan(tidx)):
                        continue
                    fd = find_device(ss, ev.model, tidx)
                    if fd is None:
                        continue
                    tm, k = fd
                    src = tm.__dict__.get(ev.src)
                    if src is None or not hasattr(src, 'a') or len(src.a) <= k:
                        continue
                    exp_slot = int(src.a[k])
                    if int(ev.a[i]) != exp_slot:
                        bad('ext_link', '%s.%s[%d] (index %r into %s.%s) points at slot %d, device %r owns slot %d' %
                            (mdl.class_name, name, i, tidx, ev.model, ev.src, int(ev.a[i]), tidx, exp_slot), what='address')
                        return out
                    ex = sentinel(ev.v_code, exp_slot)
                    if len(ev.v) > i and float(ev.v[i]) != ex:
                        bad('ext_link', '%s.%s[%d] reads %r, device %r of %s holds %r' % (mdl.class_name, name, i, float(ev.v[i]), tidx,
                                                                                        ev.model, ex), what='value')
                        return out
                probes['ext_links_checked'] = probes.get('ext_links_checked', 0) + 1
    finally:
        dae.x[:] = x_keep
        dae.y[:] = y_keep
        ss.vars_to_models()
    return out
