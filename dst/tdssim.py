"""
tds-sim engine: one real System runs its real TDS loop under the simulator's seams; the plan decides
knobs + channels, the disturbance schedule, resumed segments, restarts, solver faults and crash points.

``simulate(plan)`` returns ``(ss, hist)``; oracles are functions over ``hist`` (history checks) or are
evaluated while the run proceeds (the taps).
"""

import io
import os

import numpy as np

from dst import core
from dst.refmodels import eventsched as es
from dst.seams import (ConnTap, Seq, SimClock, SimCrash, SolverTap, StepTap, StoreTap, TimerTap)
from dst.world import all_status, build_system, config_matches, effective_config, scratch_dir

DEFAULT_KNOBS = {'TDS.no_tqdm': 1}


def V(oracle, detail, **sig):
    s = {'oracle': oracle}
    s.update(sig)
    return {'oracle': oracle, 'sig': s, 'detail': detail}


class Taps:
    """All recorders of one System; removable (must be removed before pickling the System)."""

    def __init__(self, hist, faults=None, crash_at=None, track=None, check_mirror=True, persist=True):
        self.hist = hist
        self.seq = hist.setdefault('_seq', Seq())
        self.faults = faults or {}
        self.crash_at = crash_at
        self.track = track
        self.check_mirror = check_mirror
        self.persist = persist
        self.items = []
        self.ss = None

    def install(self, ss):
        self.ss = ss
        h = self.hist
        st = StepTap(ss, self.seq, h)
        so = SolverTap(ss, ss.TDS, self.seq, h, steptap=st, faults=self.faults, check_mirror=self.check_mirror)
        self.items = [st, so, TimerTap(ss, self.seq, h), StoreTap(ss, self.seq, h), ConnTap(ss, self.seq, h)]
        self.prev_callpert = ss.TDS.callpert
        plog = h.setdefault('pert_log', [])
        taps = self

        def callpert(t, system):
            k = h['n_attempts']
            if taps.persist:
                plog.append({'seq': taps.seq(), 't': float(t), 'k': k, 'status': all_status(system),
                             'uf': {str(i): float(v) for i, v in zip(system.Fault.idx.v, system.Fault.uf.v)}
                             if system.Fault.n else {}})
            if taps.crash_at is not None and k == taps.crash_at:
                h.setdefault('faults_fired', {})
                h['faults_fired']['crash'] = h['faults_fired'].get('crash', 0) + 1
                taps.crash_at = None
                raise SimCrash('injected crash before attempt %d' % k)
            if taps.prev_callpert is not None:
                taps.prev_callpert(t, system)
        ss.TDS.callpert = callpert
        return self

    def remove(self):
        for it in self.items:
            it.remove()
        if self.ss is not None:
            self.ss.TDS.callpert = self.prev_callpert
        self.items = []


def new_hist():
    return {'attempts': [], 'n_attempts': 0, 'timer_log': [], 'store_log': [], 'conn_log': [], 'pert_log': [],
            'segments': [], 'faults_fired': {}, 'segment': 0, 'violations': [], 'notes': []}


def solver_fault_map(plan):
    return {int(f['at_attempt']): f['kind'] for f in plan.get('faults', []) if f.get('seam') == 'solver'}


def build(plan, rc_dir=None, no_output=True, extra=None):
    knobs = dict(DEFAULT_KNOBS)
    knobs.update(plan.get('knobs') or {})
    pre = None
    if plan.get('offline_at_load'):
        def pre(ss_):
            # devices that the case brings out of service (switched in later by an event of the plan)
            for mname, dev in plan['offline_at_load']:
                mdl = ss_.models[mname]
                idx = [str(x) for x in mdl.idx.v]
                if str(dev) in idx:
                    mdl.u.v[idx.index(str(dev))] = 0
    ss = build_system(plan['case'], knobs=knobs, channels=plan.get('channels') or {},
                      events=plan.get('events') or [], disable_stock_events=plan.get('disable_stock_events', False),
                      rc_dir=rc_dir, no_output=no_output, pre_setup=pre,
                      extra=dict(extra or {}, **({'flat': True} if plan.get('flat') else {})))
    return ss, knobs


def check_config(ss, knobs):
    out = []
    for key, val in sorted(knobs.items()):
        try:
            act = effective_config(ss, key)
        except AttributeError:
            out.append(V('config_effective', '%s not present after construction' % key, field=key, what='missing'))
            continue
        if not config_matches(act, val):
            out.append(V('config_effective', '%s supplied %r but %r is in effect' % (key, val, act),
                         field=key, what='differs'))
    return out


def simulate(plan, taps_kwargs=None, keep_dir=False, on_segment=None):
    """
    Execute a tds-sim plan.  Returns (ss, hist).  hist['violations'] holds violations detected online
    (config fidelity); everything else is judged by the oracle functions below.
    """
    hist = new_hist()
    np.random.seed(core.H(plan.get('seed', 0), 'numpy') % (2 ** 32))
    rc_dir = None
    if any(c == 'rc' for c in (plan.get('channels') or {}).values()) or plan.get('output'):
        rc_dir = scratch_dir('tds-')
        hist['scratch'] = rc_dir
    extra = {}
    no_output = True
    if plan.get('output'):
        no_output = False
        extra['output_path'] = rc_dir
    ss, knobs = build(plan, rc_dir=rc_dir, no_output=no_output, extra=extra)
    hist['violations'].extend(check_config(ss, {k: v for k, v in knobs.items()}))
    hist['events'] = es.normalise_events(ss)
    hist['input_status'] = all_status(ss)
    pf = ss.PFlow.run()
    hist['pf'] = bool(pf)
    if not pf:
        return ss, hist

    clock = None
    import andes.routines.tds as tdsmod
    if plan.get('clock'):
        clock = SimClock(core.stream(plan.get('seed', 0), 'clock'), plan['clock'].get('mode', 'steady'))
        tdsmod.time = clock
        hist['clock'] = clock
    crash_at = None
    for f in plan.get('faults', []):
        if f.get('seam') == 'crash':
            crash_at = int(f['at_attempt'])
    tk = dict(taps_kwargs or {})
    taps = Taps(hist, faults=solver_fault_map(plan), crash_at=crash_at, **tk).install(ss)
    hist['taps'] = taps
    try:
        if plan.get('explicit_init'):
            ss.TDS.init()
        for si, tf in enumerate(plan.get('segments') or [plan.get('tf', 2.0)]):
            hist['segment'] = si
            ss.TDS.config.tf = tf
            t_before = float(ss.dae.t)
            ret = ss.TDS.run()
            hist['segments'].append({'tf': tf, 'ret': bool(ret), 't_start': t_before, 't_end': float(ss.dae.t),
                                     'busted': bool(ss.TDS.busted), 'exit_code': int(ss.exit_code),
                                     'n_attempts': hist['n_attempts']})
            if on_segment is not None:
                on_segment(ss, hist, si)
            if ret:
                for op in plan.get('between') or []:
                    if op.get('after_segment') == si:
                        apply_between(ss, hist, op)
            if not ret:
                break
    except SimCrash:
        hist['crashed'] = True
    except core.Hang:
        raise                # the per-plan watchdog is the harness's own signal (status 'hang'), never an observation
    except Exception as e:   # an exception escaping the real routine is an observation, not a harness error
        import traceback
        tb = traceback.extract_tb(e.__traceback__)
        where = 'unknown'
        for fr in reversed(tb):
            if '/andes/' in fr.filename and '/verif/' not in fr.filename:
                where = '%s:%s' % (os.path.basename(fr.filename), fr.name)
                break
        if where == 'unknown':
            raise
        hist['exception'] = {'type': type(e).__name__, 'where': where, 'msg': str(e)[:300]}
        hist['violations'].append(V('run_exception', 'TDS.run() raised %s in %s: %s' % (type(e).__name__, where, str(e)[:200]),
                                    type=type(e).__name__, where=where))
        hist['segments'].append({'tf': ss.TDS.config.tf, 'ret': False, 't_start': float('nan'),
                                 't_end': float(ss.dae.t), 'busted': True, 'exit_code': int(ss.exit_code) + 1,
                                 'n_attempts': hist['n_attempts'], 'raised': True})
    finally:
        import time as _time
        tdsmod.time = _time
    return ss, hist


# --------------------------------------------------------------------------------------------
# oracles over the history
# --------------------------------------------------------------------------------------------

def tconst_candidates(ss):
    """(model, parameter) pairs that are the time constant of at least one differential equation of a model in use."""
    out = []
    for name, mdl in ss.exist.tds.items() if hasattr(ss.exist, 'tds') else []:
        if not mdl.n:
            continue
        for var in mdl.states.values():
            tc = var.t_const
            if tc is not None and hasattr(tc, 'vin') and tc.name in mdl.params and (name, tc.name) not in out:
                if np.all(np.asarray(tc.v, dtype=float) > 0):
                    out.append((name, tc.name))
    return sorted(out)


def apply_between(ss, hist, op):
    """An operation of the user between two resumed segments (documented API only)."""
    if op['kind'] == 'set_event_u':
        return _apply_set_event_u(ss, hist, op)
    if op['kind'] == 'alter_tconst':
        cands = tconst_candidates(ss)
        if not cands:
            return
        name, pn = cands[int(op['pick'] * len(cands)) % len(cands)]
        mdl = getattr(ss, name)
        i = int(op['pick_dev'] * mdl.n) % mdl.n
        old = float(mdl.params[pn].vin[i])
        mdl.alter(pn, mdl.idx.v[i], old * op['factor'])
        hist.setdefault('between', []).append({'after_segment': op['after_segment'], 'model': name, 'param': pn,
                                               'dev': str(mdl.idx.v[i]), 'old': old, 'new': old * op['factor']})
        pr = hist.setdefault('probes', {})
        pr['tconst_altered_between_segments'] = pr.get('tconst_altered_between_segments', 0) + 1


def _apply_set_event_u(ss, hist, op):
    """The user puts a timed event in or out of service before its time has come (Model.alter on the event's u)."""
    now = float(ss.dae.t)
    horizon = float(op.get('horizon', 1e9))
    cands = [e for e in hist['events'] if e['timers'] and all(t > now + 1e-3 for t in e['timers'].values())
             and min(e['timers'].values()) <= horizon and e['u'] != op['u']]
    if not cands:
        return
    cands.sort(key=lambda e: (e['kind'], e['idx']))
    e = cands[int(op['pick'] * len(cands)) % len(cands)]
    mdl = ss.TimedEvent.models[e['kind']]
    mdl.alter('u', mdl.idx.v[e['i']], op['u'])
    hist.setdefault('user_status', []).append((now, e['kind'], int(e['i']), float(op['u'])))
    e['u'] = float(op['u'])     # no timer of this event lies before the boundary, so this is its status at each of its times
    hist.setdefault('between', []).append({'after_segment': op['after_segment'], 'event': [e['kind'], e['idx']], 'u': op['u'], 't': now})
    pr = hist.setdefault('probes', {})
    key = 'event_enabled_after_init' if op['u'] == 1 else 'event_disabled_after_init'
    pr[key] = pr.get(key, 0) + 1


def t_reached(hist):
    """Time reached: dae.t at the end of the last segment, but never less than the last accepted (stored) instant --
    after a failed run dae.t has been rewound through rejected attempts and may sit one ulp below it."""
    t = hist['segments'][-1]['t_end'] if hist['segments'] else 0.0
    if hist.get('store_log'):
        t = max(t, float(hist['store_log'][-1]['t']))
    return t


def run_ok(hist):
    return bool(hist['segments']) and all(s['ret'] for s in hist['segments'])


def o_rule_mirror(hist, tol=1e-9):
    out = []
    for r in hist['attempts']:
        if r['mirror_err'] > tol:
            out.append(V('rule_mirror', 'attempt %d at t=%.6f h=%.3g: residual handed to the solver differs from the '
                         'integration rule recomputed from the simulator copies by %.3g (relative)' %
                         (r['k'], r['t'], r['h'], r['mirror_err']), first=(r['k'] == 0), resumed=r['resumed']))
            break
    return out


def o_solver_axb(hist, tol=1e-7):
    """Every Newton increment of every attempt solves the iteration matrix of that very iteration (any back-end)."""
    out = []
    for r in hist['attempts']:
        if r.get('axb_err', 0.0) > tol:
            out.append(V('solver_axb', 'attempt %d at t=%.6f h=%.4g: the increment returned by the solver leaves a relative residual of %.3g '
                         'against the matrix of that iteration (stale factorisation)' % (r['k'], r['t'], r['h'], r['axb_err']), what='stale_factors'))
            break
    return out


def o_acceptance(hist, ss):
    """converged <=> |last increment| <= tol (or chatter); accepted state == evaluation point - last increment."""
    out = []
    tds = ss.TDS
    tol = tds.config.tol
    n = ss.dae.n
    for r in hist['attempts']:
        if r.get('forced_reject') or r.get('forced_nan') or r.get('last_inc') is None:
            continue
        inc = r['last_inc'].copy()
        if tds.config.reset_tiny:
            inc[np.abs(inc) < tds.tol_zero] = 0
        mis = float(np.max(np.abs(inc))) if inc.size else 0.0
        if r['converged'] and not r['chatter'] and mis > tol:
            out.append(V('acceptance', 'attempt %d at t=%.6f accepted with |inc|=%.3g > tol=%.3g' %
                         (r['k'], r['t'], mis, tol), what='accepted_above_tol'))
            break
        if (not r['converged']) and mis <= tol and r['niter'] <= tds.config.max_iter:
            out.append(V('acceptance', 'attempt %d at t=%.6f rejected although |inc|=%.3g <= tol' %
                         (r['k'], r['t'], mis), what='rejected_below_tol'))
            break
        if r['converged'] and 'x_eval' in r:
            x_ref = r['x_eval'] - inc[:n]
            y_ref = r['y_eval'] - inc[n:]
            if not (np.array_equal(x_ref, r['x1']) and np.array_equal(y_ref, r['y1'])):
                d = max(float(np.max(np.abs(x_ref - r['x1']))) if n else 0.0,
                        float(np.max(np.abs(y_ref - r['y1']))))
                out.append(V('acceptance', 'attempt %d at t=%.6f: accepted state is not the last evaluation point '
                             'minus the last increment (max diff %.3g)' % (r['k'], r['t'], d), what='state_mismatch'))
                break
    return out


def o_reject_noop(hist):
    out = []
    att = hist['attempts']
    for i, r in enumerate(att):
        if r['converged'] or r['h'] == 0:
            continue
        if r.get('reject_noop') is False:
            out.append(V('reject_noop', 'rejected attempt %d at t=%.6f changed x/y/f' % (r['k'], r['t']),
                         what='state_changed'))
            break
        # after a rejection the clock returns to t-h and advances by the new h
        if i + 1 < len(att) and not r.get('busted'):
            nx = att[i + 1]
            t_prev = r['t'] - r['h']
            if r['t'] == 0.0 and not any(a['converged'] for a in att[:i]):
                # the first step of a self-initialised run ends at the starting time; its retries end there too
                if nx['t'] != 0.0:
                    out.append(V('reject_noop', 'after the rejected first attempt the next attempt ends at %.9g, not at the starting time'
                                 % nx['t'], what='clock_moved_at_start'))
                    break
                continue
            if abs((nx['t'] - nx['h']) - t_prev) > 1e-12 * max(1.0, abs(r['t'])):
                out.append(V('reject_noop', 'after rejected attempt %d the next attempt starts at %.9f instead of %.9f'
                             % (r['k'], nx['t'] - nx['h'], t_prev), what='clock_not_rewound'))
                break
    # the stored series gains no row from a rejected attempt
    rejected_t = {}
    for r in att:
        if not r['converged']:
            rejected_t[r['seq']] = r['t']
    return out


def o_continuity(hist):
    """
    Between the end of an accepted attempt and the start of the next one nothing but a dispatched event may
    touch the state: x0[k+1] == x1[k], f0[k+1] == f1[k] bit-exactly (also across resumed segments), and
    y0[k+1] == y1[k] unless a timed event fired in between (fault clearance restores algebraic values).
    """
    out = []
    att = hist['attempts']
    fired_seq = sorted(r['seq'] for r in hist['timer_log'] if r['enabled'] == 1)
    import bisect
    for i in range(len(att) - 1):
        a, b = att[i], att[i + 1]
        if not a['converged'] or len(a['x1']) != len(b['x0']):
            continue
        j = bisect.bisect_right(fired_seq, a['seq'])
        event_between = j < len(fired_seq) and fired_seq[j] < b['seq']
        if not np.array_equal(a['x1'], b['x0']):
            d = float(np.max(np.abs(a['x1'] - b['x0'])))
            if not event_between:
                out.append(V('continuity', 'state changed by %.3g between accepted attempt %d (t=%.6f) and the start of '
                             'attempt %d without any event' % (d, a['k'], a['t'], b['k']), what='x', resumed=(a['resumed'] != b['resumed'])))
                break
        if not np.array_equal(a['f1'], b['f0']) and not event_between:
            out.append(V('continuity', 'stored right-hand side changed between accepted attempt %d (t=%.6f) and attempt %d' %
                         (a['k'], a['t'], b['k']), what='f', resumed=(a['resumed'] != b['resumed'])))
            break
        if not np.array_equal(a['y1'], b['y0']) and not event_between:
            out.append(V('continuity', 'algebraic variables changed between accepted attempt %d (t=%.6f) and attempt %d '
                         'without any event' % (a['k'], a['t'], b['k']), what='y', resumed=(a['resumed'] != b['resumed'])))
            break
    return out


def o_h_envelope(hist, ss, plan):
    out = []
    cfg = ss.TDS.config
    att = hist['attempts']
    seg_of = []
    prev = 0
    for s in hist['segments']:
        seg_of.extend([s['tf']] * (s['n_attempts'] - prev))
        prev = s['n_attempts']
    ev_times = sorted({t for e in hist['events'] if e['u'] == 1 for t in e['timers'].values() if t > 0})
    for i, r in enumerate(att):
        if r['h'] < 0:
            out.append(V('h_envelope', 'attempt %d at t=%.9f has negative step %.3g' % (r['k'], r['t'], r['h']),
                         what='negative_h'))
            break
        if cfg.fixt and r['h'] > cfg.tstep * (1 + 1e-12):
            out.append(V('h_envelope', 'attempt %d: h=%.6g exceeds fixed step %.6g' % (r['k'], r['h'], cfg.tstep),
                         what='h_gt_tstep'))
            break
        if i < len(seg_of) and r['t'] > seg_of[i]:
            out.append(V('h_envelope', 'attempt %d ends at t=%.17g beyond tf=%.17g' % (r['k'], r['t'], seg_of[i]),
                         what='past_tf'))
            break
        if r['converged'] and r['h'] > 0 and r['t'] > 0:
            a, b = r['t'] - r['h'], r['t']
            for s in ev_times:
                if a + 1e-13 * max(1, abs(a)) < s < b:
                    out.append(V('h_envelope', 'accepted attempt %d (%.9f -> %.9f) crosses event time %.9f' %
                                 (r['k'], a, b, s), what='crosses_event'))
                    break
            if out:
                break
        if (not r['converged']) and cfg.fixt and cfg.shrinkt and i + 1 < len(att) and r['h'] > 0 \
                and not r.get('busted'):
            if att[i + 1]['h'] > r['h']:
                out.append(V('h_envelope', 'after rejected attempt %d (h=%.6g) the next step is larger (h=%.6g)' %
                             (r['k'], r['h'], att[i + 1]['h']), what='no_shrink'))
                break
    return out


def o_exactly_once(hist, t0=0.0):
    """TimerTap log == reference expectation (exactly once, exact time, enabled only)."""
    out = []
    t_end = t_reached(hist)
    ok = run_ok(hist)
    exp = es.expected_firings(hist['events'], t0, t_end)
    got = {}
    for rec in hist['timer_log']:
        key = (rec['model'], rec['timer'], rec['idx'])
        got.setdefault(key, []).append(rec)
    exp_keys = {}
    for kind, tname, idx, t in exp:
        exp_keys[(kind, tname, idx)] = t
    # fired-but-disabled / unexpected / repeated / wrong time
    for key, recs in sorted(got.items()):
        acting = [r for r in recs if r['enabled'] == 1]
        if key not in exp_keys:
            if acting:
                out.append(V('exactly_once', '%s.%s of %s acted at t=%r but is not an enabled event inside the '
                             'interval' % (key[0], key[1], key[2], acting[0]['t']), what='unexpected', kind=key[0]))
            continue
        t = exp_keys[key]
        if len(acting) > 1:
            out.append(V('exactly_once', '%s.%s of %s fired %d times (t=%s)' %
                         (key[0], key[1], key[2], len(acting), [r['t'] for r in acting]), what='repeated', kind=key[0]))
        for r in acting:
            if r['t'] != t:
                out.append(V('exactly_once', '%s.%s of %s fired at %r, scheduled %r' % (key[0], key[1], key[2], r['t'], t),
                             what='wrong_time', kind=key[0]))
    for key, t in sorted(exp_keys.items()):
        acting = [r for r in got.get(key, []) if r['enabled'] == 1]
        if not acting:
            if not ok and t >= t_end:
                continue
            tc = 't0' if t == t0 else ('tf' if t == t_end else 'inside')
            out.append(V('exactly_once', 'enabled %s.%s of %s scheduled at t=%r never fired (run reached t=%r)' %
                         (key[0], key[1], key[2], t, t_end), what='missing', time_class=tc))
    return out


def o_effects(hist, ss):
    """Each firing changes exactly the addressed device's status (Toggle) and nothing else."""
    out = []
    evs = {(e['kind'], e['idx']): e for e in hist['events']}
    # group firings by (seq of the callback) -- records of one callback invocation share `changed`
    for rec in hist['timer_log']:
        if rec['enabled'] != 1:
            continue
        e = evs.get((rec['model'], rec['idx']))
        if e is None:
            continue
        if rec['model'] == 'Toggle':
            tm, td = e['target']
            allowed = set()
            # all toggles of this model firing at the same instant are allowed targets
            for r2 in hist['timer_log']:
                if r2['model'] == 'Toggle' and r2['t'] == rec['t'] and r2['enabled'] == 1:
                    e2 = evs.get(('Toggle', r2['idx']))
                    if e2:
                        allowed.add(_resolve_target(ss, e2['target']))
            for (m, f, i) in rec['changed']:
                if (m, i) not in allowed:
                    out.append(V('effects', 'Toggle %s at t=%r changed %s.u[%d], which no firing toggle addresses' %
                                 (rec['idx'], rec['t'], m, i), what='wrong_device'))
                    return out
            tgt = _resolve_target(ss, e['target'])
            n_same = sum(1 for r2 in hist['timer_log'] if r2['model'] == 'Toggle' and r2['t'] == rec['t']
                         and r2['enabled'] == 1 and _resolve_target(ss, evs[('Toggle', r2['idx'])]['target']) == tgt)
            flipped = any((m, i) == tgt for (m, f, i) in rec['changed'])
            if (n_same % 2 == 1) != flipped:
                out.append(V('effects', 'Toggle %s at t=%r: target %s.u[%d] %s' %
                             (rec['idx'], rec['t'], tgt[0], tgt[1], 'did not change' if not flipped else 'changed although '
                              'an even number of toggles addressed it'), what='not_flipped'))
                return out
        elif rec['model'] in ('Fault', 'Alter'):
            if rec['changed']:
                out.append(V('effects', '%s %s at t=%r changed connection status %s' %
                             (rec['model'], rec['idx'], rec['t'], rec['changed'][:3]), what='status_side_effect'))
                return out
    return out


def _resolve_target(ss, target):
    name, dev = target[0], target[1]
    obj = ss.__dict__[name]
    if name in ss.groups:
        mdl = obj.idx2model(dev)
    else:
        mdl = obj
    return (mdl.class_name, int(mdl.idx2uid(dev)))


def o_persistence(hist, ss, t0=0.0):
    """At every step start the status of every device equals input status flipped by the toggles fired so far."""
    out = []
    if not hist['pert_log']:
        return out
    # baseline: status at the first step start (after dynamic initialisation replaced static by dynamic devices)
    base = hist['pert_log'][0]['status']
    events = hist['events']
    tgt_cache = {}
    for rec in hist['pert_log']:
        T = rec['t']
        par = es.toggle_parity(events, T, t0)
        exp = {m: v.copy() for m, v in base.items()}
        for target, n in par.items():
            if target not in tgt_cache:
                try:
                    tgt_cache[target] = _resolve_target(ss, target)
                except (KeyError, ValueError, TypeError):
                    tgt_cache[target] = None
            rt = tgt_cache[target]
            if rt is None or rt[0] not in exp:
                continue
            if n % 2 == 1:
                exp[rt[0]][rt[1]] = 1 - exp[rt[0]][rt[1]]
        for (ta, m_, i_, val_) in hist.get('user_status', []):
            # status changes made by the user between two segments (at time ta) hold for every later step
            if T > ta and m_ in exp:
                exp[m_][i_] = val_
        for m, v in exp.items():
            act = rec['status'].get(m)
            if act is None or act.shape != v.shape:
                continue
            bad = np.where(act != v)[0]
            if len(bad):
                out.append(V('persistence', 'before the step ending at t=%r: %s.u[%d]=%g, schedule says %g' %
                             (T, m, int(bad[0]), act[bad[0]], v[bad[0]]), what='status', model=m))
                return out
        if T <= t0:
            continue        # evaluations at the starting instant (initialisation, dispatch of events due at t0): no step ends there
        fa = es.fault_active(events, T, t0)
        for idx, uf in fa.items():
            if idx in rec['uf'] and rec['uf'][idx] != uf:
                out.append(V('persistence', 'before the step ending at t=%r: Fault %s uf=%g, schedule says %g' %
                             (T, idx, rec['uf'][idx], uf), what='fault_flag'))
                return out
    return out


def o_line_effect(ss, tol_abs=1e-6, tol_rel=1e-5):
    """
    The status of a branch must be what the network equations see: at the state the run ended in, the power every Line
    injects at its two terminals (as evaluated by the model) equals the pi-model of its own data times its *current* status.
    Independent complex arithmetic; branches with asymmetric terminal shunts are left out (C01 territory).
    Call after the run is finished and digested: it re-evaluates the equations.
    """
    out = []
    L = ss.Line
    if not L.n or not ss.TDS.initialized:
        return out, 0
    ss.TDS.fg_update(ss.exist.pflow_tds)
    u = np.asarray(L.u.v, dtype=float)
    r, x = np.asarray(L.r.v, dtype=float), np.asarray(L.x.v, dtype=float)
    b, g = np.asarray(L.b.v, dtype=float), np.asarray(L.g.v, dtype=float)
    sym = np.ones(L.n, dtype=bool)
    for nm in ('b1', 'b2', 'g1', 'g2'):
        sym &= np.asarray(getattr(L, nm).v, dtype=float) == 0
    tap, phi = np.asarray(L.tap.v, dtype=float), np.asarray(L.phi.v, dtype=float)
    V1 = np.asarray(L.v1.v, dtype=float) * np.exp(1j * np.asarray(L.a1.v, dtype=float))
    V2 = np.asarray(L.v2.v, dtype=float) * np.exp(1j * np.asarray(L.a2.v, dtype=float))
    with np.errstate(all='ignore'):
        y = 1.0 / (r + 1j * x)
        ysh = (g + 1j * b) / 2.0
        m = tap * np.exp(1j * phi)
        I1 = (V1 / m - V2) * y / np.conj(m) + V1 * ysh / (tap ** 2)
        I2 = (V2 - V1 / m) * y + V2 * ysh
        S1 = u * V1 * np.conj(I1)
        S2 = u * V2 * np.conj(I2)
    got1 = np.asarray(L.a1.e, dtype=float) + 1j * np.asarray(L.v1.e, dtype=float)
    got2 = np.asarray(L.a2.e, dtype=float) + 1j * np.asarray(L.v2.e, dtype=float)
    n = 0
    for k in range(L.n):
        if not sym[k] or not np.isfinite(S1[k]) or not np.isfinite(S2[k]) or min(abs(r[k]), 1.0) + abs(x[k]) < 1e-4:
            continue
        n += 1
        scale = max(abs(S1[k]), abs(S2[k]), abs(V1[k]) ** 2 * abs(y[k]) * 1e-3)
        e = max(abs(S1[k] - got1[k]), abs(S2[k] - got2[k]))
        # ANDES regularises the series impedance with 1e-8 on r and on x: relative effect 1e-8 / |z| on the series admittance
        zabs = max(abs(complex(r[k], x[k])), 1e-12)
        if not e <= tol_abs + (tol_rel + 4e-8 / zabs) * scale:
            out.append(V('line_effect', 'Line %s has status u=%g, but the power it injects into the network equations (%.6g%+.6gj at '
                         'bus1, %.6g%+.6gj at bus2) is not that of its data with this status (%.6g%+.6gj, %.6g%+.6gj)' %
                         (L.idx.v[k], u[k], got1[k].real, got1[k].imag, got2[k].real, got2[k].imag, S1[k].real, S1[k].imag,
                          S2[k].real, S2[k].imag), what='status_not_in_equations', status=int(u[k])))
            break
    return out, n


def o_grid(hist, ss, t0=0.0):
    out = []
    ts = np.array([r['t'] for r in hist['store_log']])
    if len(ts) == 0:
        return out
    d = np.diff(ts)
    if np.any(d <= 0):
        i = int(np.where(d <= 0)[0][0])
        out.append(V('grid', 'stored time stamps not strictly increasing: %r then %r' % (ts[i], ts[i + 1]),
                     what='not_increasing'))
        return out
    t_end = t_reached(hist)
    ok = run_ok(hist)
    if ok:
        tf = hist['segments'][-1]['tf']
        if ts[-1] != tf or t_end != tf:
            out.append(V('grid', 'successful run ends at stored t=%r, dae.t=%r, requested tf=%r' % (ts[-1], t_end, tf),
                         what='end_not_tf'))
        save_every = ss.TDS.config.save_every
        if save_every == 1:
            tset = set(ts.tolist())
            for s in es.required_grid(hist['events'], t0, t_end):
                if s not in tset:
                    out.append(V('grid', 'event time %r is not a stored time stamp' % s, what='event_not_on_grid'))
                    break
    else:
        for s in hist['segments']:
            if s['ret'] and s['t_end'] != s['tf']:
                out.append(V('grid', 'segment reported success but ended at %r != tf %r' % (s['t_end'], s['tf']),
                             what='end_not_tf'))
    return out


def o_completion(hist, plan):
    """A well-posed stable plan is simulated to the end: run() True and dae.t == tf."""
    out = []
    for s in hist['segments']:
        if not s['ret']:
            out.append(V('completion', 'run() returned False at t=%r (tf=%r, busted=%s)' % (s['t_end'], s['tf'], s['busted']),
                         what='run_false'))
            break
    return out


def o_success_consistent(hist):
    """run() True <=> dae.t == tf and not busted; False => exit_code raised."""
    out = []
    prev_exit = 0
    for s in hist['segments']:
        if s['ret'] and (s['busted'] or s['t_end'] != s['tf']):
            out.append(V('success_flag', 'run() True but busted=%s t_end=%r tf=%r' % (s['busted'], s['t_end'], s['tf']),
                         what='true_but_invalid'))
        if (not s['ret']) and s['exit_code'] <= prev_exit:
            out.append(V('success_flag', 'run() False but exit_code did not increase (%d)' % s['exit_code'],
                         what='false_exit_zero'))
        prev_exit = s['exit_code']
    return out


def digest_of(hist, ss):
    d = core.Digest()
    for r in hist['attempts']:
        d.add(r['k'], r['t'], r['h'], r['converged'], r['niter'], r['x1'], r['y1'])
    for r in hist['timer_log']:
        d.add(r['t'], r['model'], r['timer'], r['idx'], r['enabled'], tuple(map(tuple, r['changed'])))
    for r in hist['store_log']:
        d.add(r['t'])
    for s in hist['segments']:
        d.add(s['tf'], s['ret'], s['t_end'])
    return d.hex()


def cleanup(hist):
    import shutil
    if hist.get('scratch'):
        shutil.rmtree(hist['scratch'], ignore_errors=True)
