"""
SimWorld helpers: build one real ANDES System from a plan (case + knobs delivered through seeded
channels + extra event devices), scratch directories, quiet context.
"""

import contextlib
import io
import json
import os
import shutil
import tempfile

import numpy as np

from dst.core import REPO, VERIF, WORK, HarnessError

CASES_ROOT = os.path.join(REPO, 'andes', 'cases')


def case_path(rel):
    return os.path.join(CASES_ROOT, rel)


_catalogue = None


def catalogue():
    """Stock-case catalogue (facts about the shipped case files measured on the pinned tree)."""
    global _catalogue
    if _catalogue is None:
        with open(os.path.join(VERIF, 'dst', 'catalogue.json')) as f:
            _catalogue = json.load(f)
    return _catalogue


def scratch_dir(prefix='run-'):
    base = os.path.join(WORK, 'scratch')
    os.makedirs(base, exist_ok=True)
    return tempfile.mkdtemp(prefix=prefix, dir=base)


@contextlib.contextmanager
def scratch(prefix='run-'):
    d = scratch_dir(prefix)
    try:
        yield d
    finally:
        shutil.rmtree(d, ignore_errors=True)


def split_knobs(knobs, channels, rc_dir=None):
    """
    Turn ``{"SEC.FIELD": value}`` + ``{"SEC.FIELD": channel}`` into System() keyword arguments.

    channels: 'option' (config_option list), 'rc' (private rc file), 'dict' (System(config=...), only
    for the System section), 'attr' (assigned on the config object after construction).
    Returns (kwargs, post) where post is a list of (section, field, value) to assign after construction.
    """
    kwargs, post = {}, []
    opts, rc, dct = [], {}, {}
    for key in sorted(knobs):
        val = knobs[key]
        sec, field = key.split('.')
        ch = (channels or {}).get(key, 'option')
        if ch == 'dict' and sec != 'System':
            ch = 'option'
        if ch == 'option':
            opts.append('%s=%s' % (key, val))
        elif ch == 'rc':
            rc.setdefault(sec, {})[field] = val
        elif ch == 'dict':
            dct[field] = val
        elif ch == 'attr':
            post.append((sec, field, val))
        else:
            raise HarnessError('unknown channel %r' % ch)
    if opts:
        kwargs['config_option'] = opts
    if dct:
        kwargs['config'] = dct
    if rc:
        if rc_dir is None:
            raise HarnessError('rc channel needs a scratch dir')
        path = os.path.join(rc_dir, 'andes.rc')
        with open(path, 'w') as f:
            for sec in sorted(rc):
                f.write('[%s]\n' % sec)
                for k in sorted(rc[sec]):
                    f.write('%s = %s\n' % (k, rc[sec][k]))
                f.write('\n')
        kwargs['config_path'] = path
    else:
        kwargs['default_config'] = True
    return kwargs, post


def build_system(case, knobs=None, channels=None, events=None, disable_stock_events=False,
                 setup=True, rc_dir=None, no_output=True, extra=None, pre_setup=None):
    """Load a stock case through the real ingestion path and add extra devices before ``setup()``."""
    import andes
    kwargs, post = split_knobs(knobs or {}, channels or {}, rc_dir)
    kwargs.update(extra or {})
    path = case if os.path.isabs(case) else case_path(case)
    kwargs.setdefault('autogen_stale', False)    # the shared generated-code store is never rewritten by a run
    ss = andes.load(path, setup=False, no_output=no_output, **kwargs)
    if ss is None:
        raise HarnessError('case %s failed to load' % case)
    for sec, field, val in post:
        obj = ss if sec == 'System' else getattr(ss, sec)
        setattr(obj.config, field, val)
    if disable_stock_events:
        for grp in ('TimedEvent',):
            for mdl in ss.groups[grp].models.values():
                for i in range(mdl.n):
                    mdl.u.v[i] = 0
    for ev in (events or []):
        ss.add(ev['model'], dict(ev['params']))
    if pre_setup is not None:
        pre_setup(ss)
    if setup:
        if not ss.setup():
            raise HarnessError('setup() failed for %s' % case)
    return ss


def effective_config(ss, key):
    sec, field = key.split('.')
    obj = ss if sec == 'System' else getattr(ss, sec)
    return getattr(obj.config, field)


def config_matches(actual, supplied):
    """Config fidelity: supplied value (possibly delivered as text) must be the value in effect."""
    if isinstance(supplied, str):
        try:
            supplied_n = float(supplied)
        except ValueError:
            return actual == supplied
        return isinstance(actual, (int, float)) and float(actual) == supplied_n
    if isinstance(supplied, bool):
        return bool(actual) == supplied
    if isinstance(supplied, (int, float)):
        return isinstance(actual, (int, float, np.integer, np.floating)) and float(actual) == float(supplied)
    return actual == supplied


def all_status(ss):
    """Snapshot of every model's connection status vector (whole-system diff for 'nothing else changed')."""
    out = {}
    for name, mdl in ss.models.items():
        if mdl.n and 'u' in mdl.__dict__ and hasattr(mdl.u, 'v'):
            out[name] = np.array(mdl.u.v, dtype=float).copy()
    return out


def all_params(ss, names=None):
    """Snapshot of every numeric parameter and constant service value of the given models."""
    out = {}
    for name, mdl in ss.models.items():
        if not mdl.n or (names is not None and name not in names):
            continue
        d = {}
        for pn, p in mdl.num_params.items():
            try:
                d[pn] = np.array(p.v, dtype=float).copy()
            except (TypeError, ValueError):
                pass
        for sn, s in mdl.services.items():
            try:
                v = np.array(s.v)
                if v.dtype.kind in 'fiub' and v.shape == (mdl.n,):
                    d['svc:' + sn] = v.astype(float).copy()
            except (TypeError, ValueError, AttributeError):
                pass
        out[name] = d
    return out


def diff_snap(a, b):
    """Return list of (model, field, index) that differ between two snapshots of all_status/all_params."""
    out = []
    for m in a:
        if isinstance(a[m], dict):
            for f in a[m]:
                x, y = a[m][f], b.get(m, {}).get(f)
                if y is None or x.shape != y.shape:
                    out.append((m, f, -1))
                    continue
                ne = np.where(~((x == y) | (np.isnan(x) & np.isnan(y))))[0]
                out.extend((m, f, int(i)) for i in ne)
        else:
            x, y = a[m], b.get(m)
            if y is None or x.shape != y.shape:
                out.append((m, 'u', -1))
                continue
            out.extend((m, 'u', int(i)) for i in np.where(x != y)[0])
    return out
