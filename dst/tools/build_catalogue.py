"""Build dst/catalogue.json: measured facts about the stock cases (run on the unchanged tree)."""
import json
import os
import sys
import time

sys.path.insert(0, os.path.dirname(os.path.dirname(os.path.dirname(os.path.abspath(__file__)))))
from dst import core  # noqa

core.reexec_in_world()

import numpy as np  # noqa
from concurrent.futures import ProcessPoolExecutor  # noqa
import multiprocessing as mp  # noqa

from dst.world import CASES_ROOT, build_system  # noqa

SKIP = ('GBnetwork', 'ei/', 'pqts.xlsx', 'plbvf.xlsx')


def probe(rel):
    core._quiet_process()
    out = {'case': rel}
    t0 = time.time()
    try:
        ss = build_system(rel, knobs={'TDS.no_tqdm': 1}, channels={})
        out['load_s'] = round(time.time() - t0, 2)
        out['models'] = {k: m.n for k, m in ss.models.items() if m.n}
        out['nbus'] = ss.Bus.n
        out['lines'] = [str(i) for i in ss.Line.idx.v]
        ev = []
        for name, mdl in ss.TimedEvent.models.items():
            for i in range(mdl.n):
                d = {'model': name, 'idx': str(mdl.idx.v[i]), 'u': float(mdl.u.v[i])}
                for tn, tp in mdl.timer_params.items():
                    d[tn] = float(tp.v[i])
                ev.append(d)
        out['stock_events'] = ev
        out['timeseries'] = ss.TimeSeries.n
        out['pf'] = bool(ss.PFlow.run())
        if not out['pf']:
            return out
        ss.TDS.init()
        out['test_ok'] = bool(ss.TDS.test_ok)
        out['n'] = int(ss.dae.n)
        out['m'] = int(ss.dae.m)
        out['zero_tf'] = int(np.sum(ss.dae.Tf == 0))
        out['antiwindups'] = len(ss.antiwindups)
        out['init_res'] = float(np.max(np.abs(ss.dae.fg))) if ss.dae.n + ss.dae.m else 0.0
        ss.TDS.config.tf = 2.0
        t1 = time.time()
        ok = ss.TDS.run()
        out['run2s_ok'] = bool(ok)
        out['run2s_wall'] = round(time.time() - t1, 2)
        out['nsteps'] = len(ss.dae.ts.t)
    except BaseException as e:
        out['error'] = repr(e)[:300]
    return out


def main():
    rels = []
    for dp, dn, fn in os.walk(CASES_ROOT):
        for f in sorted(fn):
            if f.endswith(('.xlsx', '.json')):
                rel = os.path.relpath(os.path.join(dp, f), CASES_ROOT)
                if any(s in rel for s in SKIP):
                    continue
                rels.append(rel)
    rels.sort()
    with ProcessPoolExecutor(16, mp_context=mp.get_context('fork')) as ex:
        res = list(ex.map(probe, rels))
    path = os.path.join(core.VERIF, 'dst', 'catalogue.json')
    with open(path, 'w') as f:
        json.dump({'tree': core.tree_hash(), 'cases': res}, f, indent=1, sort_keys=True)
    for r in res:
        print(r['case'], r.get('pf'), r.get('test_ok'), r.get('run2s_ok'), r.get('n'), r.get('m'), r.get('zero_tf'),
              r.get('antiwindups'), len(r.get('stock_events', [])), r.get('error', ''))


main()
