"""
Seeded generators shared by the tds-sim properties: case choice, knobs + delivery channels, event
schedules drawn from named time classes, resumed-segment boundaries, solver faults.
Every draw comes from a labelled sub-stream of the run seed.
"""

import math

from dst.core import stream
from dst.world import catalogue

BIG = ('npcc/npcc.xlsx', 'wecc/wecc_full.xlsx', 'wecc/wecc_gencls.xlsx', 'ieee39/ieee39_full.xlsx')
# cases whose own data make the *undisturbed* start not an equilibrium or that cannot run (measured; see DESIGN §9)
NOT_DYNAMIC = ('ieee14/ieee14_jumper.xlsx', 'ieee39/ieee39.xlsx', 'wscc9/wscc9.xlsx')


def dynamic_cases(include_big=True, need_states=True):
    out = []
    for c in catalogue()['cases']:
        if c.get('error') or not c.get('pf') or not c.get('run2s_ok'):
            continue
        if need_states and not c.get('n'):
            continue
        if not include_big and c['case'] in BIG:
            continue
        out.append(c)
    return out


def pick_case(rng, include_big=False, test_ok_only=True, prefer=None):
    cases = dynamic_cases(include_big=include_big)
    if test_ok_only:
        cases = [c for c in cases if c.get('test_ok')]
    if prefer and rng.random() < 0.5:
        pc = [c for c in cases if c['case'] in prefer]
        if pc:
            return rng.choice(pc)
    return rng.choice(cases)


TSTEPS = [1 / 30, 1 / 60, 1 / 120, 0.01, 0.05, 0.02, 0.0333]


def pick_knobs(rng, allow_variable=True, allow_solver=True, tight=False):
    k = {}
    ts = rng.choice(TSTEPS + [round(0.01 + rng.random() * 0.04, 6)])
    k['TDS.tstep'] = ts
    if allow_variable and rng.random() < 0.25:
        k['TDS.fixt'] = 0
    if rng.random() < 0.3:
        k['TDS.method'] = 'backeuler'
    if rng.random() < 0.3:
        k['TDS.honest'] = 1
    if rng.random() < 0.3:
        k['TDS.g_scale'] = rng.choice([0, 2])
    if tight:
        k['TDS.tol'] = rng.choice([1e-6, 1e-8])
    elif rng.random() < 0.4:
        k['TDS.tol'] = rng.choice([1e-5, 1e-6, 1e-8])
    if rng.random() < 0.2:
        k['TDS.reset_tiny'] = 0
    if rng.random() < 0.2:
        k['TDS.refresh_event'] = 1
    if allow_solver and rng.random() < 0.35:
        k['TDS.sparselib'] = rng.choice(['umfpack', 'spsolve', 'klu'])
        k['PFlow.sparselib'] = k['TDS.sparselib']
    if rng.random() < 0.15:
        k['TDS.linsolve'] = 1
    if rng.random() < 0.15:
        k['System.ipadd'] = 0
    return k


def pick_channels(rng, knobs):
    ch = {}
    for key in sorted(knobs):
        r = rng.random()
        if key.endswith('sparselib') or key.startswith('System.') or key in CONSTRUCTOR_TIME:
            ch[key] = 'rc' if r < 0.4 else 'option'      # constructor-time fields
        else:
            ch[key] = 'option' if r < 0.45 else ('rc' if r < 0.75 else 'attr')
    return ch


# fields that ANDES reads once in a constructor: only the three documented channels can deliver them
CONSTRUCTOR_TIME = ('TDS.method', 'TDS.tol', 'TDS.store_z', 'TDS.store_f', 'TDS.store_h', 'TDS.store_i')

TIME_CLASSES = ['t0', 'tf', 'grid', 'offgrid', 'ulp_up', 'ulp_down', 'coincident', 'near', 'beyond_tf', 'negative',
                'boundary', 'before_boundary', 'after_boundary', 'tiny']


def draw_time(rng, cls, tf, tstep, others, boundaries):
    if cls == 't0':
        return 0.0
    if cls == 'tf':
        return tf
    if cls == 'grid':
        return rng.randint(1, max(1, int(tf / tstep) - 1)) * tstep
    if cls == 'offgrid':
        return round(rng.uniform(0.05, tf - 0.02), rng.choice([3, 5, 9, 15]))
    if cls == 'ulp_up':
        return math.nextafter(rng.randint(1, max(1, int(tf / tstep) - 1)) * tstep, math.inf)
    if cls == 'ulp_down':
        return math.nextafter(rng.randint(2, max(2, int(tf / tstep) - 1)) * tstep, 0.0)
    if cls == 'coincident' and others:
        return rng.choice(others)
    if cls == 'near' and others:
        return rng.choice(others) + rng.choice([-1, 1]) * rng.choice([5e-5, 1e-4, 2e-4, 1e-6])
    if cls == 'beyond_tf':
        return tf + rng.choice([1e-9, 0.01, 1.0])
    if cls == 'negative':
        return -rng.choice([1.0, 1e-3, 0.5])
    if cls == 'boundary' and boundaries:
        return rng.choice(boundaries)
    if cls == 'before_boundary' and boundaries:
        return rng.choice(boundaries) - rng.choice([1e-4, 5e-5, 1e-3, tstep / 2])
    if cls == 'after_boundary' and boundaries:
        return rng.choice(boundaries) + rng.choice([1e-4, 5e-5, 1e-3, tstep / 2])
    if cls == 'tiny':
        return rng.choice([1e-5, 5e-5, 1e-4, 2e-4, 1e-3])
    return round(rng.uniform(0.05, tf - 0.02), 4)


def alter_candidates(case, tconst=False):
    m = case['models']
    out = []
    if tconst:
        # time constants of differential equations (inertia): the altered value must enter the integration rule
        out += [(g, 'M') for g in ('GENROU', 'GENCLS') if m.get(g)] * 2
    if m.get('PQ'):
        out += [('PQ', 'Ppf'), ('PQ', 'Qpf')]
    if m.get('TGOV1'):
        out += [('TGOV1', 'paux0')]
    if m.get('Shunt'):
        out += [('Shunt', 'b')]
    return out


def draw_events(rng, case, tf, tstep, boundaries, n_max=6, mild=True, idx_of=None, tconst=False):
    """
    Seeded event devices (added through System.add before setup).  ``idx_of(model)`` returns the device idx list
    of a model of the loaded case (resolved in the worker).
    """
    n = rng.randint(0, n_max)
    events, times, classes = [], [], []
    for j in range(n):
        cls = rng.choice(TIME_CLASSES)
        t = float(draw_time(rng, cls, tf, tstep, times, boundaries))
        u = 0 if rng.random() < 0.15 else 1
        r = rng.random()
        kinds = ['Toggle'] * 5 + ['Fault'] * 2 + ['Alter'] * 3
        kind = rng.choice(kinds)
        if kind == 'Alter' and not alter_candidates(case, tconst):
            kind = 'Toggle'
        if kind == 'Toggle':
            tgt_model = rng.choice(['Line'] * 4 + ['PQ', 'Shunt'] if case['models'].get('Shunt') else ['Line'] * 4 + ['PQ'])
            devs = idx_of(tgt_model)
            if not devs:
                tgt_model, devs = 'Line', idx_of('Line')
            dev = rng.choice(devs)
            events.append({'model': 'Toggle', 'params': {'model': tgt_model, 'dev': dev, 't': t, 'u': u,
                                                         'idx': 'DST_Tg_%d' % j}})
            # mild: usually switch the same device back a little later so the system stays viable
            if mild and u == 1 and rng.random() < 0.7 and 0 <= t < tf:
                t2 = float(min(t + rng.choice([0.05, 0.1, tstep, 2 * tstep, 1e-4, 0.0]), tf))
                events.append({'model': 'Toggle', 'params': {'model': tgt_model, 'dev': dev, 't': t2, 'u': 1,
                                                             'idx': 'DST_Tg_%db' % j}})
                times.append(t2)
                classes.append('reclose')
        elif kind == 'Fault':
            bus = rng.choice(idx_of('Bus'))
            dur = rng.choice([0.02, 0.05, 0.1, tstep, 1e-4, 0.0])
            events.append({'model': 'Fault', 'params': {'bus': bus, 'tf': t, 'tc': t + dur, 'u': u,
                                                        'xf': rng.choice([0.05, 0.1, 0.5]), 'idx': 'DST_F_%d' % j}})
            times.append(t + dur)
            classes.append('clear')
        else:
            mdl, src = rng.choice(alter_candidates(case, tconst))
            dev = rng.choice(idx_of(mdl))
            method = rng.choice(['+', '-', '*', '/', '='])
            amount = {'+': 0.01, '-': 0.01, '*': 1.05, '/': 1.05, '=': 0.0}[method]
            if src == 'M':
                method, amount = rng.choice([('*', 1.6), ('*', 0.7), ('/', 1.4), ('+', 2.0)])
            if method == '=' and src in ('Ppf', 'Qpf', 'b'):
                method, amount = '+', 0.005
            events.append({'model': 'Alter', 'params': {'model': mdl, 'dev': dev, 'src': src, 'attr': 'v', 't': t,
                                                        'method': method, 'amount': amount, 'u': u,
                                                        'idx': 'DST_A_%d' % j}})
        times.append(t)
        classes.append(cls)
    return events, classes


def draw_segments(rng, tf, tstep, max_seg=4):
    nseg = rng.choice([1, 1, 2, 2, 3, 4])
    nseg = min(nseg, max_seg)
    if nseg == 1:
        return [tf]
    cuts = set()
    while len(cuts) < nseg - 1:
        r = rng.random()
        if r < 0.4:
            c = rng.randint(1, max(1, int(tf / tstep) - 1)) * tstep
        elif r < 0.8:
            c = round(rng.uniform(0.05, tf - 0.05), rng.choice([2, 4, 7]))
        else:
            c = round(rng.uniform(0.05, tf - 0.05), 1)
        if 0 < c < tf:
            cuts.add(float(c))
    return sorted(cuts) + [tf]
